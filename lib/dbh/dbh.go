//go:build verif

// Package dbh is the shared harness around a real NoKV.DB: it owns every source of
// background nondeterminism (compaction paused, flush worker gated, tickers disabled)
// and offers the maintenance transitions used by the sequence/crash explorers.
// One DB per process at a time (the hook handlers are process-global).
package dbh

import (
	"errors"
	"fmt"
	"io"
	"log"
	"sort"
	"strings"
	"sync"
	"sync/atomic"
	"time"

	NoKV "github.com/feichai0017/NoKV"
	"github.com/feichai0017/NoKV/utils"
	"github.com/feichai0017/NoKV/utils/verifhook"
	"github.com/feichai0017/NoKV/vfs"
)

func init() {
	log.SetOutput(io.Discard) // the engine logs every compaction
}

type Config struct {
	Engine          string // skiplist | art
	Buckets         int
	ValueThreshold  int64
	VlogFileSize    int
	SyncWrites      bool
	DetectConflicts bool
	FS              vfs.FS
	ManifestRewrite int64
	MemTableSize    int64
	MaxBatchCount   int64
	MaxBatchSize    int64
	QueueCap        int64 // commit queue capacity (0 = engine default 1024)
	Tweak           func(*NoKV.Options)
}

type H struct {
	DB  *NoKV.DB
	Dir string
	Cfg Config

	OnPoint func(name string) // extra observer for named points (crash explorer)

	gateOpen atomic.Bool
	mu       sync.Mutex

	// flush workers parked at the gate, each with the WAL segment id of the memtable it claimed
	parkMu sync.Mutex
	parked []*flushTicket
}

type flushTicket struct {
	seg uint64
	ch  chan struct{}
}

// multiFlush records whether the code under test was ever seen with two flush workers holding a
// memtable at the same time: 0 unknown, 1 no (the unchanged tree starts exactly one worker),
// 2 yes. It is a static property of the code under test, decided once per process.
var multiFlush atomic.Int32

var current atomic.Pointer[H]

func (c Config) Options(dir string) *NoKV.Options {
	opt := NoKV.NewDefaultOptions()
	opt.WorkDir = dir
	opt.FS = c.FS
	opt.MemTableSize = 1 << 20
	if c.MemTableSize > 0 {
		opt.MemTableSize = c.MemTableSize
	}
	if c.Engine != "" {
		opt.MemTableEngine = NoKV.MemTableEngine(c.Engine)
	}
	opt.SSTableMaxSz = 1 << 20
	opt.ValueThreshold = 32
	if c.ValueThreshold > 0 {
		opt.ValueThreshold = c.ValueThreshold
	}
	opt.ValueLogFileSize = 1 << 16
	if c.VlogFileSize > 0 {
		opt.ValueLogFileSize = c.VlogFileSize
	}
	opt.ValueLogBucketCount = 1
	if c.Buckets > 0 {
		opt.ValueLogBucketCount = c.Buckets
	}
	opt.ValueLogHotBucketCount = 0
	opt.ValueLogHotKeyThreshold = 0
	opt.ValueLogGCInterval = 0
	opt.ValueLogGCSampleSizeRatio = 1
	opt.ValueLogGCSampleCountRatio = 1
	opt.ValueLogGCSampleFromHead = true
	opt.HotRingEnabled = false
	opt.WriteHotKeyLimit = 0
	opt.HotWriteBurstThreshold = 0
	opt.WriteBatchWait = 0
	opt.EnableWALWatchdog = false
	opt.NumCompactors = 1
	opt.SyncWrites = c.SyncWrites
	opt.DetectConflicts = c.DetectConflicts
	opt.ManifestRewriteThreshold = c.ManifestRewrite
	opt.BlockCacheSize = 64
	opt.BloomCacheSize = 64
	if c.MaxBatchCount > 0 {
		opt.MaxBatchCount = c.MaxBatchCount
	}
	if c.MaxBatchSize > 0 {
		opt.MaxBatchSize = c.MaxBatchSize
	}
	if c.Tweak != nil {
		c.Tweak(opt)
	}
	return opt
}

// Open opens a DB in dir with the flush worker gated and compaction paused.
func Open(dir string, cfg Config) (h *H, err error) {
	h = &H{Dir: dir, Cfg: cfg}
	h.install()
	defer func() {
		if r := recover(); r != nil {
			err = fmt.Errorf("open panicked: %v", r)
			h.gateOpen.Store(true)
		}
	}()
	h.DB = NoKV.Open(cfg.Options(dir))
	return h, nil
}

func (h *H) install() {
	current.Store(h)
	// background activities owned by the harness: the compaction loop (driven through
	// Maint instead) and the periodic stats collection (it walks the memtable index from
	// its own goroutine at start-up and every 5 s, concurrently with client writes).
	verifhook.SetPausedHandler(func(name string) bool { return name == "compaction" || name == "stats" })
	verifhook.SetInt64Handler(func(name string) int64 {
		if name == "lsm.arenaSize" {
			return 1 << 20 // one 1 MiB chunk instead of 64 MiB: the arena still grows chunk by chunk
		}
		if name == "db.commitQueueCap" {
			if cur := current.Load(); cur != nil {
				return cur.Cfg.QueueCap
			}
		}
		return 0
	})
	verifhook.SetPointHandler(func(name string) {
		cur := current.Load()
		if cur == nil {
			return
		}
		if f := cur.OnPoint; f != nil {
			f(name)
		}
	})
	// the flush gate: a worker that claimed a memtable parks here, announcing the memtable's WAL
	// segment, until a maintenance transition releases exactly that worker (or the gate opens)
	verifhook.SetPointIDHandler(func(name string, id uint64) {
		cur := current.Load()
		if cur == nil || name != "lsm.flush.claimed" || cur.gateOpen.Load() {
			return
		}
		t := &flushTicket{seg: id, ch: make(chan struct{})}
		cur.parkMu.Lock()
		cur.parked = append(cur.parked, t)
		cur.parkMu.Unlock()
	wait:
		for !cur.gateOpen.Load() {
			select {
			case <-t.ch:
				break wait
			case <-time.After(200 * time.Microsecond):
			}
		}
		cur.parkMu.Lock()
		for i, x := range cur.parked {
			if x == t {
				cur.parked = append(cur.parked[:i], cur.parked[i+1:]...)
				break
			}
		}
		cur.parkMu.Unlock()
	})
}

// parkedWorkers waits (up to d) until at least n flush workers are parked and returns how many are.
func (h *H) parkedWorkers(n int, d time.Duration) int {
	deadline := time.Now().Add(d)
	for {
		h.parkMu.Lock()
		k := len(h.parked)
		h.parkMu.Unlock()
		if k >= n || time.Now().After(deadline) {
			return k
		}
		time.Sleep(20 * time.Microsecond)
	}
}

// release lets the parked flush worker holding the k-th oldest memtable (by WAL segment) run.
func (h *H) release(k int) bool {
	h.parkMu.Lock()
	defer h.parkMu.Unlock()
	if k >= len(h.parked) {
		return false
	}
	ts := append([]*flushTicket(nil), h.parked...)
	sort.Slice(ts, func(i, j int) bool { return ts[i].seg < ts[j].seg })
	t := ts[k]
	for i, x := range h.parked {
		if x == t {
			h.parked = append(h.parked[:i], h.parked[i+1:]...)
			break
		}
	}
	close(t.ch)
	return true
}

// Close opens the flush gate (queued flushes run, as in a real clean close) and closes the DB.
func (h *H) Close() (err error) {
	if h.DB == nil {
		return nil
	}
	h.gateOpen.Store(true)
	defer func() {
		if r := recover(); r != nil {
			err = fmt.Errorf("close panicked: %v", r)
		}
	}()
	err = h.DB.Close()
	h.DB = nil
	return err
}

// Reopen = clean close + open of the same directory.
func (h *H) Reopen() error {
	if err := h.Close(); err != nil {
		return err
	}
	h.gateOpen.Store(false)
	h.parkMu.Lock()
	h.parked = nil
	h.parkMu.Unlock()
	h.install()
	var err error
	func() {
		defer func() {
			if r := recover(); r != nil {
				err = fmt.Errorf("open panicked: %v", r)
				h.gateOpen.Store(true)
			}
		}()
		h.DB = NoKV.Open(h.Cfg.Options(h.Dir))
	}()
	return err
}

// FlushOne lets the flush worker flush the oldest immutable memtable and waits for it.
func (h *H) FlushOne() (bool, error) { return h.flushNth(0) }

// flushNth releases the parked flush worker that holds the k-th oldest claimed memtable and
// waits for that flush to complete. k>0 only exists when the code under test runs several flush
// workers (the unchanged tree runs one, so flushes complete in seal order).
func (h *H) flushNth(k int) (bool, error) {
	l := h.DB.VerifLSM()
	if l.VerifNumImmutables() <= k {
		return false, nil
	}
	before := l.FlushMetrics().Completed
	if h.parkedWorkers(k+1, 20*time.Second) <= k {
		if k > 0 {
			return false, nil
		}
		return false, errors.New("no flush worker claimed the sealed memtable within 20s")
	}
	if !h.release(k) {
		return false, errors.New("flush worker vanished from the gate")
	}
	deadline := time.Now().Add(20 * time.Second)
	for l.FlushMetrics().Completed == before {
		if time.Now().After(deadline) {
			return false, errors.New("flush did not complete within 20s")
		}
		time.Sleep(20 * time.Microsecond)
	}
	return true, nil
}

// severalFlushWorkers reports whether two flush workers hold memtables right now. With fewer than
// two sealed memtables the answer is no; otherwise the first call in a process waits (bounded)
// for a second worker to arrive and remembers whether the code under test has one.
func (h *H) severalFlushWorkers() bool {
	if h.DB.VerifLSM().VerifNumImmutables() < 2 {
		return false
	}
	switch multiFlush.Load() {
	case 1:
		return false
	case 2:
		return h.parkedWorkers(2, 200*time.Millisecond) >= 2
	}
	if h.parkedWorkers(2, 100*time.Millisecond) >= 2 {
		multiFlush.Store(2)
		return true
	}
	multiFlush.Store(1)
	return false
}

// MaintMenu lists the maintenance transitions that can do something in the current state.
func (h *H) MaintMenu(withGC, withReopen bool) []string {
	l := h.DB.VerifLSM()
	var ops []string
	if !l.VerifActiveEmpty() {
		ops = append(ops, "rotate")
	}
	if l.VerifNumImmutables() > 0 {
		ops = append(ops, "flush")
		if h.severalFlushWorkers() {
			// only reachable when the code under test runs more than one flush worker: the
			// second-oldest claimed memtable is flushed before the oldest
			ops = append(ops, "flush:1")
		}
	}
	counts := l.VerifLevelCounts()
	if counts[0][0] > 0 {
		ops = append(ops, "l0-base")
	}
	if counts[0][0] >= 4 {
		ops = append(ops, "l0-l0")
	}
	for lvl := 1; lvl < len(counts); lvl++ {
		if counts[lvl][1] > 0 {
			ops = append(ops, fmt.Sprintf("ingest-drain:%d", lvl))
		}
		if counts[lvl][1] >= 2 {
			ops = append(ops, fmt.Sprintf("ingest-keep:%d", lvl))
		}
	}
	if withGC {
		files, active := h.DB.VerifVlogFiles()
		for b := uint32(0); int(b) < len(files); b++ {
			for _, f := range files[b] {
				if f < active[b] {
					ops = append(ops, fmt.Sprintf("gc:%d:%d", b, f))
				}
			}
		}
	}
	if withReopen {
		ops = append(ops, "reopen")
	}
	return ops
}

// Maint applies one maintenance transition. changed=false: nothing to do.
func (h *H) Maint(op string) (changed bool, err error) {
	defer func() {
		if r := recover(); r != nil {
			err = fmt.Errorf("maintenance %q panicked: %v", op, r)
		}
	}()
	l := h.DB.VerifLSM()
	switch {
	case op == "rotate":
		return h.DB.VerifRotate(), nil
	case op == "flush":
		return h.FlushOne()
	case op == "flush:1":
		return h.flushNth(1)
	case op == "rf": // macro: seal the active memtable and flush every immutable
		rotated := h.DB.VerifRotate()
		flushed := false
		for {
			did, err := h.FlushOne()
			if err != nil {
				return true, err
			}
			if !did {
				break
			}
			flushed = true
		}
		return rotated || flushed, nil
	case op == "reopen":
		return true, h.Reopen()
	case op == "l0-base":
		return compactResult(l.VerifCompact("l0-base", 0))
	case op == "l0-l0":
		l.VerifAgeTables(time.Hour)
		return compactResult(l.VerifCompact("l0-l0", 0))
	case strings.HasPrefix(op, "ingest-drain:"):
		var lvl int
		fmt.Sscanf(op, "ingest-drain:%d", &lvl)
		return compactResult(l.VerifCompact("ingest-drain", lvl))
	case strings.HasPrefix(op, "ingest-keep:"):
		var lvl int
		fmt.Sscanf(op, "ingest-keep:%d", &lvl)
		return compactResult(l.VerifCompact("ingest-keep", lvl))
	case strings.HasPrefix(op, "regular:"):
		var lvl int
		fmt.Sscanf(op, "regular:%d", &lvl)
		return compactResult(l.VerifCompact("regular", lvl))
	case strings.HasPrefix(op, "gc:"):
		var b, f uint32
		fmt.Sscanf(op, "gc:%d:%d", &b, &f)
		err := h.DB.VerifGC(b, f, 0.000001)
		if errors.Is(err, utils.ErrNoRewrite) {
			return false, nil
		}
		if err != nil {
			return true, &ImplError{Op: op, Err: err}
		}
		return true, nil
	}
	return false, fmt.Errorf("unknown maintenance op %q", op)
}

// ImplError is an error returned by the implementation during a maintenance step
// (as opposed to a harness failure). Explorers may treat it as a property violation
// or as an implementation-only failure depending on the property.
type ImplError struct {
	Op  string
	Err error
}

func (e *ImplError) Error() string { return fmt.Sprintf("%s: %v", e.Op, e.Err) }

func compactResult(err error) (bool, error) {
	if err == nil {
		return true, nil
	}
	if errors.Is(err, utils.ErrFillTables) {
		return false, nil
	}
	return true, &ImplError{Op: "compaction", Err: err}
}
