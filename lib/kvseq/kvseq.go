//go:build verif

// Package kvseq is the seqmc Instance shared by the DB-level sequence checks
// (C01 plain KV, C02 versioned reads, C08 value-log GC): a real DB driven by client
// operations and maintenance transitions, compared after every step with a map model.
package kvseq

import (
	"bytes"
	"errors"
	"fmt"
	"math"
	"os"
	"regexp"
	"sort"
	"strconv"
	"strings"

	"github.com/feichai0017/NoKV/kv"
	"github.com/feichai0017/NoKV/utils"

	"verif/lib/dbh"
	"verif/lib/seqmc"
)

// Client op syntax:
//   set:<cf>:<key>:<kind>        plain Set; kind s=small inline, b=big (value log), e=empty value,
//                                x=already expired (abs ts 1), f=expires far in the future
//   del:<cf>:<key>               plain Del
//   vset:<cf>:<key>:<ver>:<kind> SetVersionedEntry (kind s|b)
//   vdel:<cf>:<key>:<ver>        DeleteVersionedEntry
// Values are unique per write ("v<n>" / "V<n>" padded) so a read identifies the write it returns.

type Params struct {
	Cfg        dbh.Config
	ClientOps  []string // client alphabet, simplest first
	MaxClient  int      // budget of client ops per path
	MaxMaint   int      // budget of maintenance ops per path
	WithGC     bool
	WithReopen bool
	Versioned  bool     // probe GetVersionedEntry at ProbeVersions
	ProbeVers  []uint64 // versions probed (Versioned)
	Dedup      bool
	BaseDir    string
	ExtraMaint func(menu []string) []string // filter/extend the maintenance menu
	Macro      bool                         // replace rotate/flush by the macro "rf" (rotate + flush all)
}

type ver struct {
	seq     int
	val     []byte // nil = tombstone
	expires uint64
}

type Inst struct {
	P       *Params
	H       *dbh.H
	dir     string
	model   map[string]map[uint64]ver // "cf/key" -> version -> newest write
	nClient int
	nMaint  int
	seq     int
	pending string // implementation error seen during a step
	pendDsc string
	keys    []string // universe "cf/key"
}

var dirSeq int

// OpCount counts applied (state-changing) operations by class, for coverage reporting.
var OpCount = map[string]int64{}

func New(p *Params) seqmc.Instance {
	dirSeq++
	dir := fmt.Sprintf("%s/x%d", p.BaseDir, dirSeq)
	_ = os.RemoveAll(dir)
	if err := os.MkdirAll(dir, 0o755); err != nil {
		panic(err)
	}
	h, err := dbh.Open(dir, p.Cfg)
	in := &Inst{P: p, H: h, dir: dir, model: map[string]map[uint64]ver{}}
	if err != nil {
		in.pending, in.pendDsc = "open-failed", err.Error()
	}
	seen := map[string]bool{}
	for _, op := range p.ClientOps {
		f := strings.Split(op, ":")
		k := f[1] + "/" + f[2]
		if !seen[k] {
			seen[k] = true
			in.keys = append(in.keys, k)
		}
	}
	sort.Strings(in.keys)
	return in
}

func (in *Inst) Close() {
	if in.H != nil {
		_ = in.H.Close()
	}
	_ = os.RemoveAll(in.dir)
}

func isClient(op string) bool {
	return strings.HasPrefix(op, "set:") || strings.HasPrefix(op, "del:") || strings.HasPrefix(op, "vset:") || strings.HasPrefix(op, "vdel:")
}

func (in *Inst) Enabled() []string {
	if in.pending != "" || in.H == nil || in.H.DB == nil {
		return nil
	}
	var ops []string
	if in.nClient < in.P.MaxClient {
		ops = append(ops, in.P.ClientOps...)
	}
	if in.nMaint < in.P.MaxMaint {
		menu := in.H.MaintMenu(in.P.WithGC, in.P.WithReopen)
		if in.P.Macro {
			var m2 []string
			rf := false
			for _, op := range menu {
				if op == "rotate" || op == "flush" {
					if !rf {
						m2 = append(m2, "rf")
						rf = true
					}
					continue
				}
				m2 = append(m2, op)
			}
			menu = m2
		}
		if in.P.ExtraMaint != nil {
			menu = in.P.ExtraMaint(menu)
		}
		ops = append(ops, menu...)
	}
	return ops
}

func cfOf(s string) kv.ColumnFamily {
	switch s {
	case "d":
		return kv.CFDefault
	case "l":
		return kv.CFLock
	case "w":
		return kv.CFWrite
	}
	panic("bad cf " + s)
}

func (in *Inst) value(kind string) []byte {
	n := in.seq
	switch kind {
	case "s", "x", "f":
		return []byte(fmt.Sprintf("v%d", n))
	case "b":
		v := []byte(fmt.Sprintf("V%d", n))
		for len(v) < 48 {
			v = append(v, '.')
		}
		return v
	case "e":
		return []byte{}
	}
	panic("bad kind " + kind)
}

const farFuture = uint64(1) << 40

func (in *Inst) Apply(op string) (bool, error) {
	if !isClient(op) {
		in.nMaint++
		changed, err := in.H.Maint(op)
		var ie *dbh.ImplError
		if err != nil {
			if errors.As(err, &ie) {
				// The step itself failed inside the implementation (e.g. GC gives up with an
				// error). The properties constrain what reads return, not whether background
				// work succeeds, so this is only counted; the read oracle runs as usual.
				OpCount["impl-error:"+opClass(op)]++
				return true, nil
			}
			if strings.Contains(err.Error(), "panicked") {
				in.pending = "maintenance-panic:" + opClass(op)
				in.pendDsc = err.Error()
				return true, nil
			}
			return false, err
		}
		if !changed {
			in.nMaint--
		} else {
			OpCount[opClass(op)]++
		}
		return changed, nil
	}
	in.nClient++
	OpCount[op]++
	in.seq++
	f := strings.Split(op, ":")
	cf := cfOf(f[1])
	key := []byte(f[2])
	mk := f[1] + "/" + f[2]
	if in.model[mk] == nil {
		in.model[mk] = map[uint64]ver{}
	}
	var err error
	db := in.H.DB
	switch f[0] {
	case "set":
		kind := f[3]
		val := in.value(kind)
		var exp uint64
		switch kind {
		case "x":
			exp = 1
			err = db.VerifSetExpiring(cf, key, val, exp)
		case "f":
			exp = farFuture
			err = db.VerifSetExpiring(cf, key, val, exp)
		default:
			err = db.SetCF(cf, key, val)
		}
		if err == nil {
			in.model[mk][math.MaxUint64] = ver{in.seq, val, exp}
		}
	case "del":
		err = db.DelCF(cf, key)
		if err == nil {
			in.model[mk][math.MaxUint64] = ver{in.seq, nil, 0}
		}
	case "vset":
		v, _ := strconv.ParseUint(f[3], 10, 64)
		if f[3] == "max" {
			v = math.MaxUint64
		}
		val := in.value(f[4])
		err = db.SetVersionedEntry(cf, key, v, val, 0)
		if err == nil {
			in.model[mk][v] = ver{in.seq, val, 0}
		}
	case "vdel":
		v, _ := strconv.ParseUint(f[3], 10, 64)
		if f[3] == "max" {
			v = math.MaxUint64
		}
		err = db.DeleteVersionedEntry(cf, key, v)
		if err == nil {
			in.model[mk][v] = ver{in.seq, nil, 0}
		}
	}
	if err != nil {
		in.pending = "write-error:" + f[0]
		in.pendDsc = fmt.Sprintf("%s returned %v", op, err)
	}
	return true, nil
}

func opClass(op string) string {
	if i := strings.IndexByte(op, ':'); i >= 0 {
		return op[:i]
	}
	return op
}

// newestAtOrBelow returns the model entry with the greatest version <= v.
func (in *Inst) newestAtOrBelow(mk string, v uint64) (uint64, ver, bool) {
	var best uint64
	var bv ver
	found := false
	for ver_, e := range in.model[mk] {
		if ver_ <= v && (!found || ver_ > best) {
			best, bv, found = ver_, e, true
		}
	}
	return best, bv, found
}

func (in *Inst) Check() (string, string) {
	if in.pending != "" {
		return in.pending, in.pendDsc
	}
	db := in.H.DB
	for _, mk := range in.keys {
		parts := strings.SplitN(mk, "/", 2)
		cf := cfOf(parts[0])
		key := []byte(parts[1])
		// plain read
		_, want, ok := in.newestAtOrBelow(mk, math.MaxUint64)
		live := ok && want.val != nil && want.expires != 1
		e, err := db.GetCF(cf, key)
		if sig, dsc := in.compare("get", mk, math.MaxUint64, live, want, e, err, true); sig != "" {
			return sig, dsc
		}
		if in.P.Versioned {
			for _, pv := range in.P.ProbeVers {
				_, want, ok := in.newestAtOrBelow(mk, pv)
				e, err := db.GetVersionedEntry(cf, key, pv)
				if sig, dsc := in.compare("vget", mk, pv, ok, want, e, err, false); sig != "" {
					return sig, dsc
				}
			}
		}
	}
	return "", ""
}

// compare: plain=true → deletes/expired read as not-found; plain=false → GetVersionedEntry
// returns the entry itself (a tombstone comes back as an entry with the delete bit, or not-found).
func (in *Inst) compare(api, mk string, pv uint64, present bool, want ver, e *kv.Entry, err error, plain bool) (string, string) {
	where := func() string { return in.locate(mk) }
	if err != nil && !errors.Is(err, utils.ErrKeyNotFound) {
		return fmt.Sprintf("%s-error key=%s %s", api, mk, where()), fmt.Sprintf("%s(%s@%d) returned error %v", api, mk, pv, err)
	}
	notFound := err != nil
	if !plain && present && want.val == nil {
		// tombstone: either not-found or an entry flagged deleted is acceptable
		if notFound || (e != nil && e.Meta&kv.BitDelete != 0) {
			return "", ""
		}
		return fmt.Sprintf("%s-deleted-visible key=%s %s", api, mk, where()), fmt.Sprintf("%s(%s@%d) = %q, model: deleted by write #%d", api, mk, pv, e.Value, want.seq)
	}
	if !present {
		if notFound {
			return "", ""
		}
		if !plain && e != nil && e.Meta&kv.BitDelete != 0 {
			return "", ""
		}
		return fmt.Sprintf("%s-resurrected key=%s %s", api, mk, where()), fmt.Sprintf("%s(%s@%d) = %q, model: not found (last write #%d deleted/expired or none)", api, mk, pv, e.Value, want.seq)
	}
	if notFound {
		return fmt.Sprintf("%s-lost key=%s %s", api, mk, where()), fmt.Sprintf("%s(%s@%d) = not found, model: %q (write #%d)", api, mk, pv, want.val, want.seq)
	}
	if !bytes.Equal(e.Value, want.val) {
		return fmt.Sprintf("%s-stale key=%s %s", api, mk, where()), fmt.Sprintf("%s(%s@%d) = %q, model: %q (write #%d)", api, mk, pv, e.Value, want.val, want.seq)
	}
	return "", ""
}

var reContainer = regexp.MustCompile(`^(mem|imm\[\d+\]|L\d+\.t\[\d+\]=\w+|L\d+\.ing\[\d+\]\[\d+\]=\w+):$`)

// locate describes, container class by container class, where copies of the key live
// (used in violation signatures so that distinct mechanisms get distinct signatures).
func (in *Inst) locate(mk string) string {
	parts := strings.SplitN(mk, "/", 2)
	cfn := map[string]int{"d": 0, "l": 1, "w": 2}[parts[0]]
	needle := fmt.Sprintf("  %d/%q@", cfn, parts[1])
	shape := in.H.DB.VerifLSM().VerifShape(false)
	var cur string
	var out []string
	for _, line := range strings.Split(shape, "\n") {
		if m := reContainer.FindStringSubmatch(line); m != nil {
			cur = m[1]
			continue
		}
		if strings.HasPrefix(line, needle) {
			cls := cur
			if i := strings.IndexAny(cls, "[="); i >= 0 {
				cls = cls[:i]
			}
			out = append(out, cls)
		}
	}
	return "copies=" + strings.Join(out, ",")
}

func (in *Inst) Key() string {
	if !in.P.Dedup || in.pending != "" {
		return ""
	}
	var sb strings.Builder
	fmt.Fprintf(&sb, "c%d m%d\n", in.nClient, in.nMaint)
	for _, mk := range in.keys {
		vs := in.model[mk]
		var vers []uint64
		for v := range vs {
			vers = append(vers, v)
		}
		sort.Slice(vers, func(i, j int) bool { return vers[i] < vers[j] })
		for _, v := range vers {
			fmt.Fprintf(&sb, "%s@%d=%q/%d;", mk, v, vs[v].val, vs[v].expires)
		}
	}
	sb.WriteString("\n")
	sb.WriteString(in.H.DB.VerifLSM().VerifShape(false))
	files, active := in.H.DB.VerifVlogFiles()
	fmt.Fprintf(&sb, "vlog=%v active=%v", files, active)
	return sb.String()
}
