//go:build verif

// Package kvseq is the seqmc Instance shared by the DB-level sequence checks
// (C01 plain KV, C02 versioned reads, C08 value-log GC): a real DB driven by client
// operations and maintenance transitions, compared after every step with a map model.
package kvseq

import (
	"bytes"
	"errors"
	"fmt"
	"hash/fnv"
	"math"
	"os"
	"regexp"
	"sort"
	"strconv"
	"strings"
	"sync"

	"github.com/feichai0017/NoKV/kv"
	"github.com/feichai0017/NoKV/utils"

	"verif/lib/dbh"
	"verif/lib/seqmc"
)

// Client op syntax:
//   set:<cf>:<key>:<kind>        plain Set; kind s=small inline, b=big (value log), e=empty value,
//                                x=already expired (abs ts 1), f=expires far in the future,
//                                n<N>=value of exactly N bytes (unique per write)
//   del:<cf>:<key>               plain Del
//   vset:<cf>:<key>:<ver>:<kind> SetVersionedEntry (kind s|b)
//   vdel:<cf>:<key>:<ver>        DeleteVersionedEntry
// Values are unique per write ("v<n>" / "V<n>" padded) so a read identifies the write it returns.

type Params struct {
	Cfg        dbh.Config
	ClientOps  []string // client alphabet, simplest first
	MaxClient  int      // budget of client ops per path
	MaxMaint   int      // budget of maintenance ops per path
	WithGC     bool
	WithReopen bool
	Versioned  bool     // probe GetVersionedEntry at ProbeVersions
	ProbeVers  []uint64 // versions probed (Versioned)
	Dedup      bool
	BaseDir    string
	ExtraMaint func(menu []string) []string // filter/extend the maintenance menu
	Macro      bool                         // replace rotate/flush by the macro "rf" (rotate + flush all)
	// RichSig: violation signatures carry the per-container version layout of the key in
	// lookup order plus a mechanism class (see layoutSig) instead of the bare container classes.
	RichSig bool
	// CheckIter: the oracle also walks the DB iterator (forward and reverse, values
	// materialised) and compares every yielded universe key with the model.
	CheckIter bool
	// MeasureGC: classify the effect of every gc step (file removed / live entries moved)
	// into OpCount["gc-effect:*"].
	MeasureGC bool
	// HeldIter adds the read-only operations "iopen" (open a DB iterator and keep it) and
	// "iread" (walk it, compare with the model, close it), at most one pair per path. While the
	// iterator is held only maintenance operations are enabled (no client writes, no reopen),
	// so the model does not change and the iterator must still return exactly the model.
	HeldIter bool
}

type ver struct {
	seq     int
	val     []byte // nil = tombstone
	expires uint64
}

type Inst struct {
	P       *Params
	H       *dbh.H
	dir     string
	model   map[string]map[uint64]ver // "cf/key" -> version -> newest write
	nClient int
	nMaint  int
	seq     int
	pending string // implementation error seen during a step
	pendDsc string
	keys    []string // universe "cf/key"
	hist    []write  // every successful client write, in order
	lastOp  string   // class of the last applied operation (RichSig: the step after which a failure shows)
	held    utils.Iterator
	nHeld   int
	heldOps []string        // maintenance classes applied while the iterator was held
	heldKey uint64          // hash of the state key at the time the iterator was opened
	merges  map[string]bool // table-merging compaction kinds applied so far (RichSig)
}

type write struct {
	seq int
	mk  string
	ver uint64
	val []byte // nil = tombstone
}

var dirSeq int

var (
	pointMu sync.Mutex
	pointN  = map[string]int64{}
)

// countPoint is installed as dbh.H.OnPoint (when the caller did not install one): it counts
// how often the value-log GC hook points were passed (non-vacuity evidence for GC steps).
func countPoint(name string) {
	if strings.HasPrefix(name, "vlog.") {
		pointMu.Lock()
		pointN[name]++
		pointMu.Unlock()
	}
}

// PointCounts returns how often each vlog.* hook point was passed in this process.
func PointCounts() map[string]int64 {
	pointMu.Lock()
	defer pointMu.Unlock()
	out := map[string]int64{}
	for k, v := range pointN {
		out[k] = v
	}
	return out
}

// OpCount counts applied (state-changing) operations by class, for coverage reporting.
var OpCount = map[string]int64{}

func New(p *Params) seqmc.Instance {
	dirSeq++
	dir := fmt.Sprintf("%s/x%d", p.BaseDir, dirSeq)
	_ = os.RemoveAll(dir)
	if err := os.MkdirAll(dir, 0o755); err != nil {
		panic(err)
	}
	h, err := dbh.Open(dir, p.Cfg)
	if h != nil && h.OnPoint == nil {
		h.OnPoint = countPoint
	}
	in := &Inst{P: p, H: h, dir: dir, model: map[string]map[uint64]ver{}}
	if err != nil {
		in.pending, in.pendDsc = "open-failed", err.Error()
	}
	seen := map[string]bool{}
	for _, op := range p.ClientOps {
		f := strings.Split(op, ":")
		k := f[1] + "/" + f[2]
		if !seen[k] {
			seen[k] = true
			in.keys = append(in.keys, k)
		}
	}
	sort.Strings(in.keys)
	return in
}

func (in *Inst) Close() {
	if in.held != nil {
		_ = in.held.Close()
		in.held = nil
	}
	if in.H != nil {
		_ = in.H.Close()
	}
	_ = os.RemoveAll(in.dir)
}

func isClient(op string) bool {
	return strings.HasPrefix(op, "set:") || strings.HasPrefix(op, "del:") || strings.HasPrefix(op, "vset:") || strings.HasPrefix(op, "vdel:")
}

func (in *Inst) Enabled() []string {
	if in.pending != "" || in.H == nil || in.H.DB == nil {
		return nil
	}
	var ops []string
	if in.nClient < in.P.MaxClient && in.held == nil {
		ops = append(ops, in.P.ClientOps...)
	}
	if in.P.HeldIter {
		if in.held != nil {
			ops = append(ops, "iread")
		} else if in.nHeld == 0 {
			ops = append(ops, "iopen")
		}
	}
	if in.nMaint < in.P.MaxMaint {
		menu := in.H.MaintMenu(in.P.WithGC, in.P.WithReopen && in.held == nil)
		if in.P.Macro {
			var m2 []string
			rf := false
			for _, op := range menu {
				if op == "rotate" || op == "flush" {
					if !rf {
						m2 = append(m2, "rf")
						rf = true
					}
					continue
				}
				m2 = append(m2, op)
			}
			menu = m2
		}
		if in.P.ExtraMaint != nil {
			menu = in.P.ExtraMaint(menu)
		}
		ops = append(ops, menu...)
	}
	return ops
}

func cfOf(s string) kv.ColumnFamily {
	switch s {
	case "d":
		return kv.CFDefault
	case "l":
		return kv.CFLock
	case "w":
		return kv.CFWrite
	}
	panic("bad cf " + s)
}

func (in *Inst) value(kind string) []byte {
	n := in.seq
	switch kind {
	case "s", "x", "f":
		return []byte(fmt.Sprintf("v%d", n))
	case "b":
		v := []byte(fmt.Sprintf("V%d", n))
		for len(v) < 48 {
			v = append(v, '.')
		}
		return v
	case "e":
		return []byte{}
	}
	if strings.HasPrefix(kind, "n") {
		// exactly N bytes, unique per write (prefix) and position-dependent filler so that a
		// truncated, shifted or mixed-up value never compares equal
		size, err := strconv.Atoi(kind[1:])
		if err != nil || size < 8 {
			panic("bad kind " + kind)
		}
		v := []byte(fmt.Sprintf("V%d|", n))
		for i := 0; len(v) < size; i++ {
			v = append(v, byte('a'+(i+n)%26))
		}
		return v[:size]
	}
	panic("bad kind " + kind)
}

const farFuture = uint64(1) << 40

func (in *Inst) Apply(op string) (bool, error) {
	in.lastOp = opClass(op)
	if op == "iopen" {
		in.nHeld++
		in.heldOps = nil
		in.heldKey = 0
		if in.P.Dedup {
			h := fnv.New64a()
			_, _ = h.Write([]byte(in.Key()))
			in.heldKey = h.Sum64()
		}
		in.held = in.H.DB.NewIterator(&utils.Options{IsAsc: true})
		OpCount["iopen"]++
		return true, nil
	}
	if op == "iread" {
		in.readHeld()
		OpCount["iread"]++
		return true, nil
	}
	if in.held != nil {
		in.heldOps = append(in.heldOps, opClass(op))
	}
	if !isClient(op) {
		in.nMaint++
		var gcBefore string
		isGC := in.P.MeasureGC && strings.HasPrefix(op, "gc:")
		if isGC {
			gcBefore = in.vlogAndMem()
		}
		changed, err := in.H.Maint(op)
		if isGC && in.H.DB != nil {
			in.noteGC(op, gcBefore, err)
		}
		var ie *dbh.ImplError
		if err != nil {
			if errors.As(err, &ie) {
				// The step itself failed inside the implementation (e.g. GC gives up with an
				// error). The properties constrain what reads return, not whether background
				// work succeeds, so this is only counted; the read oracle runs as usual.
				OpCount["impl-error:"+opClass(op)]++
				return true, nil
			}
			if strings.Contains(err.Error(), "panicked") {
				in.pending = "maintenance-panic:" + opClass(op)
				in.pendDsc = err.Error()
				return true, nil
			}
			return false, err
		}
		if !changed {
			in.nMaint--
		} else {
			OpCount[opClass(op)]++
			if c := opClass(op); c == "l0-l0" || c == "ingest-keep" || c == "ingest-drain" {
				if in.merges == nil {
					in.merges = map[string]bool{}
				}
				in.merges[c] = true
			}
		}
		return changed, nil
	}
	in.nClient++
	OpCount[op]++
	in.seq++
	f := strings.Split(op, ":")
	cf := cfOf(f[1])
	key := []byte(f[2])
	mk := f[1] + "/" + f[2]
	if in.model[mk] == nil {
		in.model[mk] = map[uint64]ver{}
	}
	var err error
	db := in.H.DB
	switch f[0] {
	case "set":
		kind := f[3]
		val := in.value(kind)
		var exp uint64
		switch kind {
		case "x":
			exp = 1
			err = db.VerifSetExpiring(cf, key, val, exp)
		case "f":
			exp = farFuture
			err = db.VerifSetExpiring(cf, key, val, exp)
		default:
			err = db.SetCF(cf, key, val)
		}
		if err == nil {
			in.model[mk][math.MaxUint64] = ver{in.seq, val, exp}
			in.hist = append(in.hist, write{in.seq, mk, math.MaxUint64, val})
		}
	case "del":
		err = db.DelCF(cf, key)
		if err == nil {
			in.model[mk][math.MaxUint64] = ver{in.seq, nil, 0}
			in.hist = append(in.hist, write{in.seq, mk, math.MaxUint64, nil})
		}
	case "vset":
		v, _ := strconv.ParseUint(f[3], 10, 64)
		if f[3] == "max" {
			v = math.MaxUint64
		}
		val := in.value(f[4])
		err = db.SetVersionedEntry(cf, key, v, val, 0)
		if err == nil {
			in.model[mk][v] = ver{in.seq, val, 0}
			in.hist = append(in.hist, write{in.seq, mk, v, val})
		}
	case "vdel":
		v, _ := strconv.ParseUint(f[3], 10, 64)
		if f[3] == "max" {
			v = math.MaxUint64
		}
		err = db.DeleteVersionedEntry(cf, key, v)
		if err == nil {
			in.model[mk][v] = ver{in.seq, nil, 0}
			in.hist = append(in.hist, write{in.seq, mk, v, nil})
		}
	}
	if err != nil {
		in.pending = "write-error:" + f[0]
		in.pendDsc = fmt.Sprintf("%s returned %v", op, err)
	}
	return true, nil
}

// vlogAndMem fingerprints what a GC run can change: the value-log file sets and the
// contents of the active memtable (where rewritten entries land).
func (in *Inst) vlogAndMem() string {
	files, _ := in.H.DB.VerifVlogFiles()
	shape := in.H.DB.VerifLSM().VerifShape(false)
	if i := strings.Index(shape, "\nimm["); i >= 0 {
		shape = shape[:i]
	} else if i := strings.Index(shape, "\nL"); i >= 0 {
		shape = shape[:i]
	}
	return fmt.Sprintf("%v\x00%s", files, shape)
}

// noteGC classifies the effect of one GC step (non-vacuity evidence): did it remove the
// file, did it move live entries into the active memtable.
func (in *Inst) noteGC(op string, before string, err error) {
	var b, f uint32
	fmt.Sscanf(op, "gc:%d:%d", &b, &f)
	after := in.vlogAndMem()
	bf, af := strings.SplitN(before, "\x00", 2), strings.SplitN(after, "\x00", 2)
	files, _ := in.H.DB.VerifVlogFiles()
	removed := true
	for _, x := range files[b] {
		if x == f {
			removed = false
		}
	}
	moved := bf[1] != af[1]
	switch {
	case err != nil:
		what := "error"
		if moved {
			what = "error-after-moving-live"
		}
		if removed {
			what += "+removed-file"
		}
		OpCount["gc-effect:"+what]++
		msg := err.Error()
		if i := strings.LastIndex(msg, ": "); i >= 0 {
			msg = msg[i+2:]
		}
		OpCount["gc-error:"+msg]++
	case removed && moved:
		OpCount["gc-effect:moved-live+removed-file"]++
	case removed:
		OpCount["gc-effect:removed-file-only"]++
	case moved:
		OpCount["gc-effect:moved-live-file-kept"]++
	default:
		OpCount["gc-effect:none"]++
	}
}

func opClass(op string) string {
	if i := strings.IndexByte(op, ':'); i >= 0 {
		return op[:i]
	}
	return op
}

// newestAtOrBelow returns the model entry with the greatest version <= v.
func (in *Inst) newestAtOrBelow(mk string, v uint64) (uint64, ver, bool) {
	var best uint64
	var bv ver
	found := false
	for ver_, e := range in.model[mk] {
		if ver_ <= v && (!found || ver_ > best) {
			best, bv, found = ver_, e, true
		}
	}
	return best, bv, found
}

func (in *Inst) Check() (string, string) {
	if in.pending != "" {
		return in.pending, in.pendDsc
	}
	db := in.H.DB
	for _, mk := range in.keys {
		parts := strings.SplitN(mk, "/", 2)
		cf := cfOf(parts[0])
		key := []byte(parts[1])
		// plain read
		_, want, ok := in.newestAtOrBelow(mk, math.MaxUint64)
		live := ok && want.val != nil && want.expires != 1
		e, err := db.GetCF(cf, key)
		if sig, dsc := in.compare("get", mk, math.MaxUint64, live, want, e, err, true); sig != "" {
			return sig, dsc
		}
		if in.P.Versioned {
			for _, pv := range in.P.ProbeVers {
				_, want, ok := in.newestAtOrBelow(mk, pv)
				e, err := db.GetVersionedEntry(cf, key, pv)
				if sig, dsc := in.compare("vget", mk, pv, ok, want, e, err, false); sig != "" {
					return sig, dsc
				}
			}
		}
	}
	if in.P.CheckIter {
		for _, asc := range []bool{true, false} {
			if sig, dsc := in.checkIter(asc); sig != "" {
				return sig, dsc
			}
		}
	}
	return "", ""
}

// checkIter walks the DB iterator (values materialised) over everything and compares each
// yielded universe key at the plain (max) version with the model: a yielded value must be
// the model's live value, and every live model key must be yielded. Entries of other
// versions / foreign keys (engine-internal records) are ignored. The iterator works on
// internal keys and does not hide older versions, so only max-version items are judged.
func (in *Inst) checkIter(asc bool) (string, string) {
	api := "iter-fwd"
	if !asc {
		api = "iter-rev"
	}
	it := in.H.DB.NewIterator(&utils.Options{IsAsc: asc})
	seen := map[string][][]byte{}
	for it.Rewind(); it.Valid(); it.Next() {
		item := it.Item()
		if item == nil || item.Entry() == nil {
			continue
		}
		e := item.Entry()
		if e.Version != math.MaxUint64 {
			continue
		}
		if e.Meta&kv.BitDelete != 0 {
			// a tombstone surfaced as an item (delete bit set, no value): not a value; whether
			// iterators must hide tombstones is the iterator property's business (C06)
			continue
		}
		mk := cfName(e.CF) + "/" + string(e.Key)
		seen[mk] = append(seen[mk], append([]byte(nil), e.Value...))
	}
	_ = it.Close()
	for _, mk := range in.keys {
		want, ok := in.model[mk][math.MaxUint64]
		live := ok && want.val != nil && want.expires != 1
		got := seen[mk]
		where := func() string { return in.where(mk, math.MaxUint64, false) }
		if !live {
			if len(got) > 0 {
				return fmt.Sprintf("%s-resurrected key=%s %s", api, mk, where()), fmt.Sprintf("%s yields %s = %q, model: not found (write #%d deleted/expired or none)", api, mk, got[0], want.seq)
			}
			continue
		}
		if len(got) == 0 {
			return fmt.Sprintf("%s-lost key=%s %s", api, mk, where()), fmt.Sprintf("%s does not yield %s, model: %q (write #%d)", api, mk, want.val, want.seq)
		}
		for _, g := range got {
			if !bytes.Equal(g, want.val) {
				return fmt.Sprintf("%s-stale key=%s %s", api, mk, where()), fmt.Sprintf("%s yields %s = %q%s, model: %q (write #%d)", api, mk, g, in.whoWrote(mk, g), want.val, want.seq)
			}
		}
	}
	return "", ""
}

// readHeld walks the held iterator and judges it like checkIter; a failure becomes the
// pending violation of this state with the maintenance classes applied while it was open.
func (in *Inst) readHeld() {
	it := in.held
	in.held = nil
	seen := map[string][][]byte{}
	for it.Rewind(); it.Valid(); it.Next() {
		item := it.Item()
		if item == nil || item.Entry() == nil {
			continue
		}
		e := item.Entry()
		if e.Version != math.MaxUint64 || e.Meta&kv.BitDelete != 0 {
			continue
		}
		mk := cfName(e.CF) + "/" + string(e.Key)
		seen[mk] = append(seen[mk], append([]byte(nil), e.Value...))
	}
	_ = it.Close()
	set := map[string]bool{}
	for _, o := range in.heldOps {
		set[o] = true
	}
	var cls []string
	for o := range set {
		cls = append(cls, o)
	}
	sort.Strings(cls)
	during := "while-open=" + strings.Join(cls, ",")
	for _, mk := range in.keys {
		want, ok := in.model[mk][math.MaxUint64]
		live := ok && want.val != nil && want.expires != 1
		got := seen[mk]
		switch {
		case !live && len(got) > 0:
			in.pending = fmt.Sprintf("iter-held-resurrected key=%s %s %s", mk, during, in.where(mk, math.MaxUint64, false))
			in.pendDsc = fmt.Sprintf("iterator opened before %v yields %s = %q, model: not found", in.heldOps, mk, got[0])
		case live && len(got) == 0:
			in.pending = fmt.Sprintf("iter-held-lost key=%s %s %s", mk, during, in.where(mk, math.MaxUint64, false))
			in.pendDsc = fmt.Sprintf("iterator opened before %v does not yield %s, model: %q (write #%d)", in.heldOps, mk, want.val, want.seq)
		case live:
			for _, g := range got {
				if !bytes.Equal(g, want.val) {
					in.pending = fmt.Sprintf("iter-held-stale key=%s %s %s", mk, during, in.where(mk, math.MaxUint64, false))
					in.pendDsc = fmt.Sprintf("iterator opened before %v yields %s = %q%s, model: %q (write #%d)", in.heldOps, mk, g, in.whoWrote(mk, g), want.val, want.seq)
				}
			}
		}
		if in.pending != "" {
			return
		}
	}
}

func cfName(cf kv.ColumnFamily) string {
	switch cf {
	case kv.CFDefault:
		return "d"
	case kv.CFLock:
		return "l"
	case kv.CFWrite:
		return "w"
	}
	return "?"
}

// whoWrote names the write that produced val (values are unique per write).
func (in *Inst) whoWrote(mk string, val []byte) string {
	for _, w := range in.hist {
		if w.mk == mk && w.val != nil && bytes.Equal(w.val, val) {
			return fmt.Sprintf(" (write #%d @%s)", w.seq, verName(w.ver))
		}
	}
	return " (no write produced this value)"
}

func verName(v uint64) string {
	if v == math.MaxUint64 {
		return "max"
	}
	return strconv.FormatUint(v, 10)
}

// where is the state-classification part of a violation signature.
func (in *Inst) where(mk string, pv uint64, lookup bool) string {
	if !in.P.RichSig {
		return in.locate(mk)
	}
	return in.layoutSig(mk, pv, lookup)
}

// compare: plain=true → deletes/expired read as not-found; plain=false → GetVersionedEntry
// returns the entry itself (a tombstone comes back as an entry with the delete bit, or not-found).
func (in *Inst) compare(api, mk string, pv uint64, present bool, want ver, e *kv.Entry, err error, plain bool) (string, string) {
	where := func() string { return in.where(mk, pv, true) }
	if err != nil && !errors.Is(err, utils.ErrKeyNotFound) {
		return fmt.Sprintf("%s-error key=%s %s", api, mk, where()), fmt.Sprintf("%s(%s@%d) returned error %v", api, mk, pv, err)
	}
	notFound := err != nil
	if !plain && present && want.val == nil {
		// tombstone: either not-found or an entry flagged deleted is acceptable
		if notFound || (e != nil && e.Meta&kv.BitDelete != 0) {
			return "", ""
		}
		return fmt.Sprintf("%s-deleted-visible key=%s %s", api, mk, where()), fmt.Sprintf("%s(%s@%d) = %q, model: deleted by write #%d", api, mk, pv, e.Value, want.seq)
	}
	if !present {
		if notFound {
			return "", ""
		}
		if !plain && e != nil && e.Meta&kv.BitDelete != 0 {
			return "", ""
		}
		return fmt.Sprintf("%s-resurrected key=%s %s", api, mk, where()), fmt.Sprintf("%s(%s@%d) = %q, model: not found (last write #%d deleted/expired or none)", api, mk, pv, e.Value, want.seq)
	}
	if notFound {
		return fmt.Sprintf("%s-lost key=%s %s", api, mk, where()), fmt.Sprintf("%s(%s@%d) = not found, model: %q (write #%d)", api, mk, pv, want.val, want.seq)
	}
	if !bytes.Equal(e.Value, want.val) {
		return fmt.Sprintf("%s-stale key=%s %s", api, mk, where()), fmt.Sprintf("%s(%s@%d) = %q%s, model: %q (write #%d)", api, mk, pv, e.Value, in.whoWrote(mk, e.Value), want.val, want.seq)
	}
	return "", ""
}

var reContainer = regexp.MustCompile(`^(mem|imm\[\d+\]|L\d+\.t\[\d+\]=\w+|L\d+\.ing\[\d+\]\[\d+\]=\w+):$`)

// locate describes, container class by container class, where copies of the key live
// (used in violation signatures so that distinct mechanisms get distinct signatures).
func (in *Inst) locate(mk string) string {
	parts := strings.SplitN(mk, "/", 2)
	cfn := map[string]int{"d": 0, "l": 1, "w": 2}[parts[0]]
	needle := fmt.Sprintf("  %d/%q@", cfn, parts[1])
	shape := in.H.DB.VerifLSM().VerifShape(false)
	var cur string
	var out []string
	for _, line := range strings.Split(shape, "\n") {
		if m := reContainer.FindStringSubmatch(line); m != nil {
			cur = m[1]
			continue
		}
		if strings.HasPrefix(line, needle) {
			cls := cur
			if i := strings.IndexAny(cls, "[="); i >= 0 {
				cls = cls[:i]
			}
			out = append(out, cls)
		}
	}
	return "copies=" + strings.Join(out, ",")
}

type container struct {
	class    string // mem | imm | t | ing
	level    int    // -1 for memtables
	vers     []uint64
	min, max string // first / last "cf/key" of the container (dump order = key order)
}

// layoutSig (RichSig) renders where the versions of mk live, in point-lookup order, and
// classifies the lookup situation for probe version pv:
//
//	probe=<pv> want=@<v> mech=<class> layout=mem@1|imm@3|L0:t@2+t@2|L6:ing@1+t@1
//
// Units (separated by "|") are what a point lookup consults one after the other, stopping
// at the first unit with a hit: the active memtable, each immutable memtable newest first,
// L0 as a whole (newest table first), then each level as a whole (ingest tables, then main
// tables). step = class of the operation after which the failure showed; merges = the
// table-merging compaction kinds (l0-l0, ingest-keep, ingest-drain) applied earlier on the path
// (their outputs get fresh, higher file ids than younger flushed tables); overlap = levels >= 1
// whose main tables have overlapping key ranges (a broken level invariant: point lookups binary
// search one table per level, the level iterator concatenates them).
// mech=first-hit-unit-lacks-newest-version: the first unit holding any version <= pv does not
// hold the model's answer (a newer container holds only older versions: out-of-order version
// writes); mech=tie:<classes>: several containers of that unit hold the wanted version and the
// wrong one was chosen; mech=stored-copy-wrong:<class>: exactly one container of that unit holds
// the wanted version, i.e. the stored copy itself is the wrong write (an earlier merge/rewrite
// kept the older duplicate); mech=phantom: the model has no version <= pv at all;
// mech=merge-tie:<classes> / merge-single:<class> / merge-none: iterator (merged view) failure
// with the sources holding the wanted version listed in the iterator's source order.
func (in *Inst) layoutSig(mk string, pv uint64, lookup bool) string {
	parts := strings.SplitN(mk, "/", 2)
	cfn := map[string]int{"d": 0, "l": 1, "w": 2}[parts[0]]
	needle := fmt.Sprintf("  %d/%q@", cfn, parts[1])
	shape := in.H.DB.VerifLSM().VerifShape(false)
	var cs []*container
	var cur *container
	for _, line := range strings.Split(shape, "\n") {
		if m := reContainer.FindStringSubmatch(line); m != nil {
			cur = &container{level: -1}
			switch {
			case m[1] == "mem":
				cur.class = "mem"
			case strings.HasPrefix(m[1], "imm"):
				cur.class = "imm"
			default:
				fmt.Sscanf(m[1], "L%d.", &cur.level)
				if strings.Contains(m[1], ".ing[") {
					cur.class = "ing"
				} else {
					cur.class = "t"
				}
			}
			cs = append(cs, cur)
			continue
		}
		if cur != nil && strings.HasPrefix(line, "  ") {
			if i := strings.LastIndex(line, "\"@"); i > 0 {
				uk := line[2 : i+1]
				if cur.min == "" {
					cur.min = uk
				}
				cur.max = uk
			}
		}
		if cur != nil && strings.HasPrefix(line, needle) {
			rest := line[len(needle):]
			if i := strings.IndexByte(rest, ' '); i >= 0 {
				rest = rest[:i]
			}
			v, _ := strconv.ParseUint(rest, 10, 64)
			cur.vers = append(cur.vers, v)
		}
	}
	// lookup units
	var units [][]*container
	var imms, l0 []*container
	levels := map[int][]*container{}
	maxLevel := 0
	for _, c := range cs {
		switch {
		case c.class == "mem":
			units = append(units, []*container{c})
		case c.class == "imm":
			imms = append(imms, c)
		case c.level == 0:
			l0 = append(l0, c)
		default:
			levels[c.level] = append(levels[c.level], c)
			if c.level > maxLevel {
				maxLevel = c.level
			}
		}
	}
	for i := len(imms) - 1; i >= 0; i-- {
		units = append(units, []*container{imms[i]})
	}
	var rl0 []*container
	for i := len(l0) - 1; i >= 0; i-- {
		rl0 = append(rl0, l0[i])
	}
	units = append(units, rl0)
	for l := 1; l <= maxLevel; l++ {
		var ing, main []*container
		for _, c := range levels[l] {
			if c.class == "ing" {
				ing = append(ing, c)
			} else {
				main = append(main, c)
			}
		}
		units = append(units, append(ing, main...))
	}
	wantV, _, present := in.newestAtOrBelow(mk, pv)
	mech := ""
	var us []string
	for _, u := range units {
		var cstr, holders []string
		hit := false
		for _, c := range u {
			if len(c.vers) == 0 {
				continue
			}
			var vs []string
			for _, v := range c.vers {
				vs = append(vs, verName(v))
				if v <= pv {
					hit = true
				}
				if present && v == wantV {
					holders = append(holders, c.class)
				}
			}
			cstr = append(cstr, c.class+"@"+strings.Join(vs, ","))
		}
		if len(cstr) == 0 {
			continue
		}
		name := strings.Join(cstr, "+")
		if u[0].level >= 0 {
			name = fmt.Sprintf("L%d:%s", u[0].level, name)
		}
		us = append(us, name)
		if mech == "" && hit {
			switch len(holders) {
			case 0:
				mech = "first-hit-unit-lacks-newest-version"
			case 1:
				mech = "stored-copy-wrong:" + holders[0]
			default:
				mech = "tie:" + strings.Join(holders, "+")
			}
		}
	}
	want := "none"
	if present {
		want = "@" + verName(wantV)
	}
	switch {
	case !lookup:
		// iterator (merged view): which sources hold the wanted version, in the order the
		// iterator lists its sources (memtable, immutables OLDEST first, L0 newest first, levels)
		var holders []string
		add := func(c *container) {
			for _, v := range c.vers {
				if present && v == wantV {
					holders = append(holders, c.class)
				}
			}
		}
		for _, u := range units[:1] {
			for _, c := range u {
				if c.class == "mem" {
					add(c)
				}
			}
		}
		for _, c := range imms {
			add(c)
		}
		for _, u := range units {
			for _, c := range u {
				if c.class != "mem" && c.class != "imm" {
					add(c)
				}
			}
		}
		switch len(holders) {
		case 0:
			mech = "merge-none"
		case 1:
			mech = "merge-single:" + holders[0]
		default:
			mech = "merge-tie:" + strings.Join(holders, "+")
		}
	case !present:
		mech = "phantom"
	case mech == "":
		mech = "missing-everywhere"
	}
	// broken level invariant: two MAIN tables of one level (>= 1) with overlapping key ranges
	overlap := "-"
	var ovl []string
	for l := 1; l <= maxLevel; l++ {
		var main []*container
		for _, c := range levels[l] {
			if c.class == "t" && c.min != "" {
				main = append(main, c)
			}
		}
		sort.SliceStable(main, func(i, j int) bool { return main[i].min < main[j].min })
		for i := 1; i < len(main); i++ {
			if main[i].min <= main[i-1].max {
				ovl = append(ovl, fmt.Sprintf("L%d", l))
				break
			}
		}
	}
	if len(ovl) > 0 {
		overlap = strings.Join(ovl, ",")
	}
	merges := "-"
	if len(in.merges) > 0 {
		var ms []string
		for m := range in.merges {
			ms = append(ms, m)
		}
		sort.Strings(ms)
		merges = strings.Join(ms, ",")
	}
	return fmt.Sprintf("step=%s merges=%s overlap=%s probe=%s want=%s mech=%s layout=%s", in.lastOp, merges, overlap, verName(pv), want, mech, strings.Join(us, "|"))
}

func (in *Inst) Key() string {
	if !in.P.Dedup || in.pending != "" {
		return ""
	}
	var sb strings.Builder
	fmt.Fprintf(&sb, "c%d m%d\n", in.nClient, in.nMaint)
	if in.P.HeldIter {
		if in.held != nil {
			// the held iterator pins the containers that existed when it was opened
			fmt.Fprintf(&sb, "held since=%x during=%v\n", in.heldKey, in.heldOps)
		} else {
			fmt.Fprintf(&sb, "held n=%d\n", in.nHeld)
		}
	}
	for _, mk := range in.keys {
		vs := in.model[mk]
		var vers []uint64
		for v := range vs {
			vers = append(vers, v)
		}
		sort.Slice(vers, func(i, j int) bool { return vers[i] < vers[j] })
		for _, v := range vers {
			fmt.Fprintf(&sb, "%s@%d=%q/%d;", mk, v, vs[v].val, vs[v].expires)
		}
	}
	sb.WriteString("\n")
	sb.WriteString(in.H.DB.VerifLSM().VerifShape(false))
	files, active := in.H.DB.VerifVlogFiles()
	fmt.Fprintf(&sb, "vlog=%v active=%v", files, active)
	return sb.String()
}
