package schedmc

import (
	"time"

	"verif/lib/vr"
)

// Item is one independently explorable scenario of a check.
type Item struct {
	Name string
	// Run explores the scenario into sub until done or until expired() reports true.
	Run func(expired func() bool, sub *vr.Partial)
}

// ExploreAll runs the items in order, each with an equal share of what is left of the budget;
// items that hit their share are taken up again (from the start: the search is deterministic) in
// a second pass that divides the budget the cheap items left unused. Per item it counts
// "done:<name>" when the worker enumerated its part of the item completely; use Completed in the
// parent. A share hit is not a budget hit of the run: only the global deadline is.
func ExploreAll(r *vr.Run, p *vr.Partial, items []Item) {
	p.Add("workers", 1)
	pending := make([]int, len(items))
	for i := range items {
		pending[i] = i
	}
	for pass := 0; pass < 2 && len(pending) > 0; pass++ {
		var again []int
		for k, idx := range pending {
			if r.Expired() {
				again = append(again, pending[k:]...)
				break
			}
			it := items[idx]
			deadline := time.Now().Add(r.Remaining() / time.Duration(len(pending)-k))
			hit := false
			expired := func() bool {
				if time.Now().After(deadline) {
					hit = true
					return true
				}
				return r.Expired()
			}
			sub := vr.NewPartial()
			it.Run(expired, sub)
			sub.TimedOut = false
			if hit || r.Expired() {
				again = append(again, idx)
			} else {
				p.Add("done:"+it.Name, 1)
			}
			if pass > 0 {
				// the second pass repeats the first pass's schedules before it goes further
				p.Add("executions_repeated_in_second_pass", sub.Counters["executions"])
			}
			p.Merge(sub)
		}
		pending = again
	}
	if len(pending) > 0 {
		p.TimedOut = true
	}
}

// Completed lists the items every worker enumerated completely.
func Completed(total *vr.Partial, names []string) []string {
	var out []string
	for _, n := range names {
		if w := total.Counters["workers"]; w > 0 && total.Counters["done:"+n] >= w {
			out = append(out, n)
		}
	}
	return out
}
