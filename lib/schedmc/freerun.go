package schedmc

import (
	"fmt"
	"os"
	"os/exec"
	"path/filepath"
	"regexp"
	"sort"
	"strings"
	"sync"
	"time"

	"verif/lib/vr"
)

// Scenario names one harness for the free-running supporting pass.
type Scenario struct {
	Name  string
	Setup func() *Exec
}

// FreeRunMain is the supporting "-race" pass of a schedmc check (registry entry "<ID>-race",
// built with -race): the thread bodies of every scenario run as ordinary goroutines, with no
// controlled scheduler, so that the Go race detector sees the plain-memory accesses that a
// cooperative scheduler cannot interleave (its hand-offs are happens-before edges). It never
// decides a property: reports are tallied as supporting evidence for the assumption that the
// synchronisation operations are sufficient scheduling points. Reports whose two top frames are
// both in the harness (package main: oracle bookkeeping that is only safe under the cooperative
// scheduler) are counted separately and ignored.
func FreeRunMain(r *vr.Run, scs []Scenario, iters int) {
	if os.Getenv("VERIF_FREERUN_CHILD") != "" {
		freeRunChild(scs, iters)
		os.Exit(0)
	}
	dir := r.Scratch()
	cmd := exec.Command(os.Args[0], os.Args[1:]...)
	cmd.Env = append(os.Environ(), "VERIF_FREERUN_CHILD=1", "GORACE=exitcode=0 halt_on_error=0 log_path="+filepath.Join(dir, "race"))
	out, err := cmd.CombinedOutput()
	if err != nil {
		vr.Fatalf("free-running child failed: %v\n%s", err, out)
	}
	var notes []any
	for _, l := range strings.Split(string(out), "\n") {
		if strings.HasPrefix(l, "FREERUN ") {
			notes = append(notes, l[8:])
		}
	}
	logs, _ := filepath.Glob(filepath.Join(dir, "race*"))
	top := regexp.MustCompile(`(?m)^(Previous |Read|Write|Atomic)[^\n]*\n\s+(\S+)\(\)\n\s+(\S+:\d+)`)
	distinct := map[string]int{}
	total, harness := 0, 0
	for _, f := range logs {
		b, _ := os.ReadFile(f)
		for _, rep := range strings.Split(string(b), "==================") {
			if !strings.Contains(rep, "WARNING: DATA RACE") {
				continue
			}
			var fr []string
			inHarness := 0
			ms := top.FindAllStringSubmatch(rep, 2)
			for _, m := range ms {
				fn := m[2]
				if strings.HasPrefix(fn, "main.") {
					inHarness++
				}
				loc := m[3]
				if i := strings.LastIndex(loc, "/"); i >= 0 {
					loc = loc[i+1:]
				}
				fr = append(fr, fn[strings.LastIndex(fn, "/")+1:]+"@"+loc)
			}
			if len(ms) > 0 && inHarness == len(ms) {
				harness++
				continue
			}
			total++
			distinct[strings.Join(fr, " <-> ")]++
		}
	}
	var reps []any
	for k, n := range distinct {
		reps = append(reps, fmt.Sprintf("%dx %s", n, k))
	}
	sort.Slice(reps, func(i, j int) bool { return reps[i].(string) < reps[j].(string) })
	fmt.Printf("%s: %d data-race reports in the code under test (%d distinct), %d in harness bookkeeping (ignored)\n", r.Prop, total, len(distinct), harness)
	for _, x := range reps {
		fmt.Println("  RACE", x)
	}
	for _, x := range notes {
		fmt.Println("  NOTE", x)
	}
	samples := append(append([]any{}, reps...), notes...)
	if len(samples) == 0 {
		samples = []any{"no data-race report"}
	}
	n := int64(len(scs))
	r.Finish(vr.Coverage{
		Level: "exploration", Evaluations: n * int64(iters), Distinct: n,
		Rule:       "free-running executions (real goroutines, no controlled scheduler) of every scenario's thread bodies under the Go race detector; supporting evidence only, schedules are whatever the runtime produces",
		Samples:    samples,
		Exhaustive: false,
		Outcomes:   int64(len(distinct) + 1),
		Extra:      map[string]any{"race_reports": total, "distinct_race_reports": reps, "harness_only_reports_ignored": harness, "iterations_per_scenario": iters, "notes": notes},
	})
}

// FreeRunning is true inside the free-running supporting pass: harness bodies skip their
// oracle bookkeeping (plain maps and slices that are only safe under the cooperative
// scheduler) and perform the operations on the code under test only.
var FreeRunning bool

func freeRunChild(scs []Scenario, iters int) {
	FreeRunning = true
	for _, sc := range scs {
		panics := map[string]int{}
		var pmu sync.Mutex
		hung := false
		for it := 0; it < iters && !hung; it++ {
			ex := sc.Setup()
			var wg sync.WaitGroup
			for _, body := range ex.Threads {
				wg.Add(1)
				go func(body func()) {
					defer wg.Done()
					defer func() {
						if x := recover(); x != nil {
							pmu.Lock()
							panics[fmt.Sprint(x)]++
							pmu.Unlock()
						}
					}()
					body()
				}(body)
			}
			done := make(chan struct{})
			go func() { wg.Wait(); close(done) }()
			select {
			case <-done:
			case <-time.After(120 * time.Second):
				// not an oracle: only keeps the supporting pass from hanging forever
				fmt.Printf("FREERUN %s: iteration %d did not finish within 120 s; scenario abandoned\n", sc.Name, it)
				hung = true
			}
			if !hung && ex.Cleanup != nil {
				ex.Cleanup()
			}
		}
		for k, n := range panics {
			fmt.Printf("FREERUN %s: %dx panic %s\n", sc.Name, n, k)
		}
	}
}
