// Package schedmc explores thread interleavings of real code under the vsched
// controlled scheduler: preemption-bounded depth-first search over scheduling
// decisions (iterative context bounding). Every execution runs on fresh objects;
// an execution is identified by its sequence of decisions, so any failing
// schedule is replayable.
package schedmc

import (
	"fmt"
	"runtime"
	"strings"

	"verif/lib/vr"
	"verif/shim/vsched"
)

// Exec is one fresh instance of the system under test.
type Exec struct {
	Threads []func()
	// Monitor runs after every step on the scheduler goroutine (no thread running);
	// a non-empty sig is a violation and ends the execution.
	Monitor func() (sig, desc string)
	// Final runs after the execution ended; res tells how.
	Final func(res vsched.Result) (sig, desc string)
	// Outcome is a canonical string of what this execution observed (for distinct-outcome statistics).
	Outcome func() string
	Cleanup func()
}

type Options struct {
	Name         string
	Bound        int // max preemptions; <0 = unbounded
	MaxSteps     int
	YieldHorizon int
	// AllowDeadlock: a deadlock is not by itself a violation (Final decides).
	AllowDeadlock bool
	ShardDepth    int // decisions whose alternatives are distributed over shards (default 1)
	// Exclusive: no uncontrolled goroutine touches the shims (see vsched.Sched.Exclusive).
	Exclusive bool
	// StartQuiet: exploration starts switched off; the harness calls vsched.SetExplore(true).
	StartQuiet bool
	// FreshPools: two GC cycles before every execution, which empties every sync.Pool, so that
	// package-level caches of the code under test cannot carry state from one execution to the next.
	FreshPools bool
	// SoftNondeterminism: a failing schedule that cannot be reproduced (even from emptied pools) and
	// a prefix replay that diverges are counted ("unreproducible_failures", "diverged_replays") and
	// skipped instead of aborting the run. The caller must turn a non-zero count into a harness
	// error when no reproducible violation was found. For code under test that may keep
	// process-global state across executions.
	SoftNondeterminism bool
}

type Stats struct {
	Executions   int64
	Steps        int64
	Decisions    int64
	MaxDecisions int
	Incomplete   bool
}

type replayChooser struct {
	prefix   []int
	taken    []int
	soft     bool
	diverged bool
}

func (c *replayChooser) choose(i, n int) int {
	pick := 0
	if i < len(c.prefix) {
		pick = c.prefix[i]
		if pick >= n {
			if !c.soft {
				vr.Fatalf("schedule replay diverged: decision %d wants alternative %d of %d", i, pick, n)
			}
			c.diverged, pick = true, 0
		}
	}
	c.taken = append(c.taken, pick)
	return pick
}

type runResult struct {
	diverged bool
	trace    []vsched.Step
	taken    []int
	res      vsched.Result
	sig      string
	desc     string
	outcome  string
}

func runOnce(setup func() *Exec, opt Options, prefix []int) runResult {
	if opt.FreshPools {
		runtime.GC()
		runtime.GC()
	}
	ex := setup()
	ch := &replayChooser{prefix: prefix, soft: opt.SoftNondeterminism}
	s := vsched.New(ex.Threads, ch.choose)
	s.Exclusive = opt.Exclusive
	if opt.StartQuiet {
		s.StartQuiet()
	}
	if opt.MaxSteps > 0 {
		s.MaxSteps = opt.MaxSteps
	}
	if opt.YieldHorizon > 0 {
		s.YieldHorizon = opt.YieldHorizon
	}
	var sig, desc string
	if ex.Monitor != nil {
		s.AfterStep = func() bool {
			sig, desc = ex.Monitor()
			return sig == ""
		}
	}
	res := s.Run()
	if sig == "" {
		switch {
		case res.Panic != nil:
			sig, desc = "panic", fmt.Sprintf("thread T%d panicked: %v", res.PanicTid, res.Panic)
			if i := strings.IndexByte(fmt.Sprint(res.Panic), '\n'); i > 0 {
				sig = "panic: " + fmt.Sprint(res.Panic)[:i]
			}
		case res.Deadlock && !opt.AllowDeadlock:
			sig, desc = "deadlock "+strings.Join(res.Blocked, ","), "no enabled thread: "+strings.Join(res.Blocked, ",")
		case res.Livelock:
			sig, desc = "livelock", "only polling threads enabled beyond the yield horizon"
		case res.Truncated:
			vr.Fatalf("%s: execution exceeded MaxSteps=%d", opt.Name, s.MaxSteps)
		}
	}
	if sig == "" && ex.Final != nil {
		sig, desc = ex.Final(res)
	}
	out := ""
	if ex.Outcome != nil {
		out = ex.Outcome()
	}
	if ex.Cleanup != nil {
		ex.Cleanup()
	}
	return runResult{diverged: ch.diverged, trace: s.Trace, taken: ch.taken, res: res, sig: sig, desc: desc, outcome: out}
}

// Explore enumerates all schedules with at most opt.Bound preemptions.
func Explore(setup func() *Exec, opt Options, sh vr.ShardInfo, p *vr.Partial, expired func() bool) Stats {
	var st Stats
	if opt.ShardDepth <= 0 {
		opt.ShardDepth = 2
	}
	type item struct {
		prefix []int
		cost   int
		dev    int // number of non-default decisions in prefix
	}
	stack := []item{{nil, 0, 0}}
	subtree := 0
	first := true
	for len(stack) > 0 {
		if expired != nil && expired() {
			st.Incomplete = true
			break
		}
		it := stack[len(stack)-1]
		stack = stack[:len(stack)-1]
		rr := runOnce(setup, opt, it.prefix)
		if rr.diverged {
			p.Add("diverged_replays", 1)
			continue
		}
		dup := sh.Count > 1 && sh.Index != 0 && it.dev < opt.ShardDepth // explored by every worker, counted once
		if !dup {
			st.Executions++
			st.Steps += int64(rr.res.Steps)
		}
		// decision steps of this run (those with >1 alternatives, in order)
		var decs []vsched.Step
		for _, s := range rr.trace {
			if s.Enabled > 1 {
				decs = append(decs, s)
			}
		}
		if len(decs) > st.MaxDecisions {
			st.MaxDecisions = len(decs)
		}
		if len(decs) != len(rr.taken) {
			vr.Fatalf("%s: internal: %d decisions recorded, %d taken", opt.Name, len(decs), len(rr.taken))
		}
		if first {
			first = false
			p.Sample(fmt.Sprintf("%s default schedule: %s", opt.Name, traceString(rr.trace, 40)))
		}
		if rr.outcome != "" {
			p.Mark("outcomes:"+opt.Name, rr.outcome)
			p.Mark("outcomes", opt.Name+"|"+rr.outcome)
		}
		if rr.sig != "" {
			// confirm determinism: the same decisions must fail the same way
			again := runOnce(setup, opt, rr.taken)
			st.Executions++
			if again.sig != rr.sig {
				// The code under test may keep process-global caches (sync.Pool) whose content
				// depends on earlier executions. Two GC cycles empty every sync.Pool: the schedule
				// must then fail identically twice from that clean state, otherwise it is a
				// harness problem and nothing is reported.
				runtime.GC()
				runtime.GC()
				c1 := runOnce(setup, opt, rr.taken)
				runtime.GC()
				runtime.GC()
				c2 := runOnce(setup, opt, rr.taken)
				st.Executions += 2
				if (c1.sig == "" || c1.sig != c2.sig) && opt.SoftNondeterminism {
					p.Add("unreproducible_failures", 1)
					p.Sample(fmt.Sprintf("%s: unreproducible failure %q on schedule %v", opt.Name, rr.sig, rr.taken))
					continue
				}
				if c1.sig == "" || c1.sig != c2.sig {
					vr.Fatalf("%s: schedule %v is not reproducible: %q then %q (from flushed pools: %q, %q)", opt.Name, rr.taken, rr.sig, again.sig, c1.sig, c2.sig)
				}
				rr = c1
			}
			p.Add("validated_replays", 1)
			p.Viol(opt.Name+": "+rr.sig, rr.desc+"\n  schedule: "+traceString(rr.trace, 400), fmt.Sprintf(`{"Harness":%q,"Choices":%s}`, opt.Name, intsJSON(rr.taken)))
			continue // shortest first: do not extend failing schedules
		}
		st.Decisions += int64(len(decs) - len(it.prefix))
		// alternatives at decisions beyond the prefix
		cost := it.cost
		// recompute cost along the prefix part is already in it.cost; walk the rest
		for i := len(it.prefix); i < len(decs); i++ {
			d := decs[i]
			for alt := d.Enabled - 1; alt >= 1; alt-- {
				c := cost
				if !d.Sub && d.CurrentEnabled {
					c++ // switching away from a runnable thread is a preemption
				}
				if opt.Bound >= 0 && c > opt.Bound {
					continue
				}
				np := append(append([]int{}, rr.taken[:i]...), alt)
				// Work distribution: every worker explores the runs with fewer than ShardDepth
				// deviations itself (cheap, duplicated); a subtree rooted at a prefix with exactly
				// ShardDepth deviations belongs to one worker.
				if it.dev+1 == opt.ShardDepth {
					subtree++
					if !sh.Owns(subtree) {
						continue
					}
				}
				stack = append(stack, item{np, c, it.dev + 1})
			}
			// the default choice (index 0) at decision i costs nothing, unless... index 0 is
			// "continue current" when CurrentEnabled, else the lowest id: never a preemption.
		}
	}
	p.Add("executions", st.Executions)
	p.Add("exec:"+opt.Name, st.Executions)
	p.Add("steps", st.Steps)
	p.Add("decisions", st.Decisions)
	p.Max("max_decisions", int64(st.MaxDecisions))
	if st.Incomplete {
		p.TimedOut = true
	}
	return st
}

// Replay runs one recorded schedule and returns the violation it produces (if any).
func Replay(setup func() *Exec, opt Options, choices []int) (sig, desc, trace string) {
	rr := runOnce(setup, opt, choices)
	return rr.sig, rr.desc, traceString(rr.trace, 1000)
}

func traceString(tr []vsched.Step, max int) string {
	var sb strings.Builder
	for i, s := range tr {
		if i >= max {
			fmt.Fprintf(&sb, " …(%d more)", len(tr)-max)
			break
		}
		if i > 0 {
			sb.WriteByte(' ')
		}
		if s.Sub {
			fmt.Fprintf(&sb, "T%d:case%d", s.Tid, s.Chosen)
			continue
		}
		mark := ""
		if s.Enabled > 1 && s.Chosen > 0 && s.CurrentEnabled {
			mark = "!" // preemption
		}
		if s.Label != "" {
			fmt.Fprintf(&sb, "%sT%d:%s", mark, s.Tid, s.Label)
		} else {
			fmt.Fprintf(&sb, "%sT%d:%s", mark, s.Tid, s.Kind)
		}
	}
	return sb.String()
}

func intsJSON(a []int) string {
	var sb strings.Builder
	sb.WriteByte('[')
	for i, v := range a {
		if i > 0 {
			sb.WriteByte(',')
		}
		fmt.Fprintf(&sb, "%d", v)
	}
	sb.WriteByte(']')
	return sb.String()
}
