// Package regionh holds small helpers shared by the region/routing checks (C24, C25):
// a silent raft logger, a no-op transport, a single-store peer builder and interval
// arithmetic over key ranges where an empty end key means +infinity.
package regionh

import (
	"fmt"
	"sort"

	"github.com/feichai0017/NoKV/manifest"
	myraft "github.com/feichai0017/NoKV/raft"
	"github.com/feichai0017/NoKV/raftstore/peer"
)

type quietLogger struct{}

func (quietLogger) Debug(...any)            {}
func (quietLogger) Debugf(string, ...any)   {}
func (quietLogger) Info(...any)             {}
func (quietLogger) Infof(string, ...any)    {}
func (quietLogger) Warning(...any)          {}
func (quietLogger) Warningf(string, ...any) {}
func (quietLogger) Error(...any)            {}
func (quietLogger) Errorf(string, ...any)   {}
func (quietLogger) Fatal(a ...any)          { panic(fmt.Sprint(a...)) }
func (quietLogger) Fatalf(f string, a ...any) {
	panic(fmt.Sprintf(f, a...))
}
func (quietLogger) Panic(a ...any)            { panic(fmt.Sprint(a...)) }
func (quietLogger) Panicf(f string, a ...any) { panic(fmt.Sprintf(f, a...)) }

// QuietRaft silences etcd raft's process-global logger.
func QuietRaft() { myraft.SetLogger(quietLogger{}) }

// NoopTransport drops every raft message (single-voter groups need none).
type NoopTransport struct{}

func (NoopTransport) Send(myraft.Message) {}

// PeerID is the peer id used for a region on the single harness store.
func PeerID(regionID uint64) uint64 { return 1000 + regionID }

// PeerConfig builds the configuration of the single local peer of a region
// (in-memory raft storage, no-op transport), as the repo's own store tests do.
func PeerConfig(meta manifest.RegionMeta) *peer.Config {
	return &peer.Config{
		RaftConfig: myraft.Config{
			ID:              PeerID(meta.ID),
			ElectionTick:    5,
			HeartbeatTick:   1,
			MaxSizePerMsg:   1 << 20,
			MaxInflightMsgs: 256,
			PreVote:         true,
		},
		Transport: NoopTransport{},
		Apply:     func([]myraft.Entry) error { return nil },
		GroupID:   meta.ID,
		Region:    manifest.CloneRegionMetaPtr(&meta),
	}
}

// Iv is a half-open key interval [S,E); E=="" means +infinity, S=="" is the smallest key.
type Iv struct{ S, E string }

func (v Iv) Empty() bool            { return v.E != "" && v.E <= v.S }
func (v Iv) Contains(k string) bool { return v.S <= k && (v.E == "" || k < v.E) }
func (v Iv) String() string {
	e := v.E
	if e == "" {
		e = "+inf"
	}
	s := v.S
	if s == "" {
		s = "-inf"
	}
	return "[" + s + "," + e + ")"
}

// Overlap reports whether two intervals share a key.
func Overlap(a, b Iv) bool {
	if a.Empty() || b.Empty() {
		return false
	}
	if a.E != "" && a.E <= b.S {
		return false
	}
	if b.E != "" && b.E <= a.S {
		return false
	}
	return true
}

// Union normalises a set of intervals into sorted maximal disjoint intervals.
func Union(in []Iv) []Iv {
	var vs []Iv
	for _, v := range in {
		if !v.Empty() {
			vs = append(vs, v)
		}
	}
	sort.Slice(vs, func(i, j int) bool { return vs[i].S < vs[j].S })
	var out []Iv
	for _, v := range vs {
		if n := len(out); n > 0 {
			last := &out[n-1]
			if last.E == "" {
				continue
			}
			if v.S <= last.E {
				if v.E == "" || v.E > last.E {
					last.E = v.E
				}
				continue
			}
		}
		out = append(out, v)
	}
	return out
}

func covers(u []Iv, k string) bool {
	for _, v := range u {
		if v.Contains(k) {
			return true
		}
	}
	return false
}

// Diff compares two unions; lost = keys in want but not in got, gained = converse.
func Diff(want, got []Iv) (lost, gained bool) {
	pts := map[string]bool{"": true}
	for _, l := range [][]Iv{want, got} {
		for _, v := range l {
			pts[v.S] = true
			if v.E != "" {
				pts[v.E] = true
			}
		}
	}
	for k := range pts {
		w, g := covers(want, k), covers(got, k)
		if w && !g {
			lost = true
		}
		if g && !w {
			gained = true
		}
	}
	return
}

func UnionString(u []Iv) string {
	s := ""
	for _, v := range u {
		s += v.String()
	}
	if s == "" {
		s = "(empty)"
	}
	return s
}
