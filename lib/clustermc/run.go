//go:build verif

package clustermc

import (
	"flag"
	"fmt"
	"os"
	"path/filepath"
	"runtime"
	"runtime/debug"
	"runtime/pprof"
	"sort"
	"strings"
	"testing"

	"verif/lib/vr"
)

// Check describes one property check built on the engine.
type Check struct {
	Prop        string
	Oracle      Oracle
	Scenarios   func(r *vr.Run) []*Scenario
	Rule        string
	Assumptions []string
	MinStates   int64
}

// Main runs the check. The process is a plain binary, but executions need a *testing.T for
// testing/synctest, so the body runs as the single "test" of testing.Main.
func Main(ck Check) {
	testing.Init()
	_ = flag.Set("test.timeout", "0")
	testing.Main(func(pat, str string) (bool, error) { return true, nil },
		[]testing.InternalTest{{Name: ck.Prop, F: func(t *testing.T) { run(t, ck) }}}, nil, nil)
}

func run(t *testing.T, ck Check) {
	r := vr.Start(ck.Prop)
	if f := os.Getenv("VERIF_CPUPROFILE"); f != "" && os.Getenv("VERIF_SHARD") == "" {
		if fh, err := os.Create(f); err == nil {
			_ = pprof.StartCPUProfile(fh)
		}
	}
	scs := ck.Scenarios(r)
	if only := os.Getenv("VERIF_CMC_ONLY"); only != "" {
		var keep []*Scenario
		for _, sc := range scs {
			if strings.Contains(sc.Name, only) {
				keep = append(keep, sc)
			}
		}
		scs = keep
	}
	if r.ReplayPath != "" {
		var rp Replay
		r.LoadReplay(&rp)
		replay(t, r, ck, scs, rp)
		return
	}
	dir := os.Getenv("VERIF_CMC_DIR")
	if dir == "" {
		dir = filepath.Join(r.Scratch(), "cmc")
		_ = os.Setenv("VERIF_CMC_DIR", dir)
	}
	total := r.RunSharded(vr.Workers(), func(sh vr.ShardInfo, p *vr.Partial) {
		// one P per worker: helper goroutines run only while the harness goroutine is parked
		runtime.GOMAXPROCS(1)
		// Every execution allocates 1.5-3 MB of watermark windows (NewPeer). Touching fresh
		// pages is very expensive in this VM, so the automatic collector and the scavenger are
		// switched off and Explore collects every gcEvery executions: the allocator then cycles
		// through the same ~100 MB of resident memory.
		debug.SetGCPercent(-1)
		ScratchBase = filepath.Join(dir, fmt.Sprintf("wal-w%d", sh.Index))
		_ = os.MkdirAll(ScratchBase, 0o755)
		for i, sc := range scs {
			Explore(t, sc, ck.Oracle, sh, filepath.Join(dir, fmt.Sprintf("s%d", i)), r.Expired, p)
		}
	})
	pprof.StopCPUProfile()
	states := total.Card("states")
	var bounds []string
	perScenario := map[string]int64{}
	for _, sc := range scs {
		bounds = append(bounds, sc.Describe())
		perScenario[sc.Name] = total.Counters[sc.Name+"/n_states"]
	}
	trs := map[string]int64{}
	for k, v := range total.Counters {
		if strings.HasPrefix(k, "tr:") {
			trs[trName(k[3:])] = v
		}
	}
	outcomes := int64(len(total.Violations)) + states
	r.RequireOutcomes(states, ck.MinStates)
	exhaustive := !total.TimedOut && total.Counters["depth_cut"] == 0
	r.Finish(vr.Coverage{
		Level:       "model_checking",
		Evaluations: total.Counters["executions"],
		Distinct:    states,
		Rule:        ck.Rule,
		Samples:     total.SamplesAny(),
		States:      states,
		Transitions: total.Counters["transitions"],
		Validated:   total.Counters["validated"],
		Exhaustive:  exhaustive,
		Outcomes:    outcomes,
		Bounds:      map[string]any{"scenarios": bounds, "tier": r.Tier},
		Extra: map[string]any{"states_per_scenario": perScenario, "transitions_by_kind": trs, "dedup_hits": total.Counters["dedup_hits"],
			"replayed_steps": total.Counters["replayed_steps"], "max_depth": total.Counters["max_depth"],
			"scenarios_closed": total.Counters["closed_scenarios"], "scenarios_total": len(scs),
			"divergence_retries":                 total.Counters["divergence_retries"],
			"discarded_random_election_timeouts": total.Counters["discarded_random_election_timeouts"],
			"dedup_bisimulation_spot_checks":     total.Counters["dedup_bisim_checks"], "porcupine_cross_checks": total.Counters["porcupine_cross_checks"]},
		Assumptions: ck.Assumptions,
	})
}

func trName(k string) string {
	switch k {
	case "d":
		return "deliver"
	case "x":
		return "drop"
	case "u":
		return "duplicate"
	case "o":
		return "reorder"
	case "b":
		return "heartbeat-round"
	case "c":
		return "campaign"
	case "p":
		return "partition"
	case "h":
		return "heal"
	case "i":
		return "client-op"
	}
	return k
}

func replay(t *testing.T, r *vr.Run, ck Check, scs []*Scenario, rp Replay) {
	for _, sc := range scs {
		if sc.Name != rp.Scenario {
			continue
		}
		big := *sc
		big.Budget = 1 << 20
		ScratchBase = filepath.Join(r.Scratch(), "wal-replay")
		_ = os.MkdirAll(ScratchBase, 0o755)
		var res ExecResult
		for n := 0; n < 200; n++ {
			if res = Exec(t, &big, ck.Oracle, rp.Path, true); !strings.Contains(res.Err, RetryPrefix) {
				break
			}
		}
		if res.Err != "" {
			vr.Fatalf("replay: %s", res.Err)
		}
		fmt.Printf("replay: scenario %s, %d/%d steps executed\nfinal state:\n%s\n", sc.Name, res.Steps, len(rp.Path), res.Key)
		if res.Sig != "" {
			r.Violation(res.Sig, "scenario="+sc.Name+" "+res.Desc+"    schedule: "+strings.Join(rp.Path[:res.Steps], " "), Replay{Scenario: sc.Name, Path: rp.Path[:res.Steps]})
		}
		r.Finish(vr.Coverage{Level: "model_checking", Evaluations: 1, Distinct: 2, States: 1, Transitions: int64(len(rp.Path)), Rule: "replay", Samples: []any{rp.Path}})
	}
	var names []string
	for _, sc := range scs {
		names = append(names, sc.Name)
	}
	sort.Strings(names)
	vr.Fatalf("replay: unknown scenario %q (have %v)", rp.Scenario, names)
}
