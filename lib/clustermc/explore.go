//go:build verif

package clustermc

import (
	"encoding/gob"
	"encoding/json"
	"fmt"
	"os"
	"path/filepath"
	"runtime"
	"strconv"
	"strings"
	"syscall"
	"testing"
	"testing/synctest"
	"time"

	"verif/lib/vr"
)

// ExecResult is the observation of one execution (fresh cluster, path replayed).
type ExecResult struct {
	PrefixKey uint64 // hash of the canonical state after path[:len-1] (determinism check)
	Key       string
	Enabled   []string
	Sig, Desc string
	Err       string // harness-level failure (transition not applicable, panic in the bubble)
	Steps     int
}

// Exec builds a fresh cluster inside a synctest bubble, replays path and evaluates oracle
// after the last transition (and, when everyStep is set, after every transition).
func Exec(t *testing.T, sc *Scenario, oracle Oracle, path []string, everyStep bool) (res ExecResult) {
	synctest.Test(t, func(t *testing.T) {
		defer func() {
			if r := recover(); r != nil {
				buf := make([]byte, 8192)
				buf = buf[:runtime.Stack(buf, false)]
				res.Err = fmt.Sprintf("panic: %v\n%s", r, buf)
			}
		}()
		c, err := NewCluster(sc, synctest.Wait)
		if err != nil {
			res.Err = err.Error()
			return
		}
		defer func() {
			// stop the peers, then let the bubble's fake clock run past the real 3 s
			// command/read timeouts so every leaked waiter returns before the bubble ends
			c.Close()
			time.Sleep(time.Minute)
		}()
		for i, tr := range path {
			if i == len(path)-1 {
				res.PrefixKey = vr.Hash64(c.Key())
			}
			if everyStep {
				if sig, desc := oracle(c); sig != "" {
					res.Sig, res.Desc, res.Steps = sig, desc, i
					res.Key = c.Key()
					return
				}
			}
			if err := c.Apply(tr); err != nil {
				res.Err = fmt.Sprintf("step %d %q: %v", i, tr, err)
				return
			}
		}
		res.Steps = len(path)
		res.Key = c.Key()
		res.Enabled = c.Enabled()
		res.Sig, res.Desc = oracle(c)
	})
	return res
}

// gcEvery: executions between forced collections (see run.go).
const gcEvery = 6

type stateRec struct {
	Hash    uint64
	Path    string // transitions joined by ' '
	Enabled string
}

func splitPath(s string) []string {
	if s == "" {
		return nil
	}
	return strings.Split(s, " ")
}

// Replay is the replay artefact of a violation.
type Replay struct {
	Scenario string
	Path     []string
}

// Explore searches sc's state space. The state space is hash-partitioned over the worker
// processes of r.RunSharded: each state is owned (deduplicated and expanded) by exactly one
// worker, successors are shipped to their owner through files in dir, so states are
// deduplicated globally. Workers run asynchronously (FIFO queues, roughly breadth-first);
// termination is detected with per-worker sent/received counters (two identical all-idle
// snapshots with sent == received). Every execution re-checks that the replayed prefix
// reaches the parent's recorded canonical state on the fresh cluster (determinism).
func Explore(t *testing.T, sc *Scenario, oracle Oracle, sh vr.ShardInfo, dir string, expired func() bool, p *vr.Partial) {
	n := sh.Count
	if n < 1 {
		n = 1
	}
	me := sh.Index
	owner := func(h uint64) int { return int(h % uint64(n)) }
	inbox := func(j int) string { return filepath.Join(dir, fmt.Sprintf("in%d", j)) }
	for j := 0; j < n; j++ {
		if err := os.MkdirAll(inbox(j), 0o755); err != nil {
			vr.Fatalf("clustermc: %v", err)
		}
	}
	if err := os.MkdirAll(filepath.Join(dir, "tmp"), 0o755); err != nil {
		vr.Fatalf("clustermc: %v", err)
	}
	pre := sc.Name + "/"
	seen := map[uint64]uint8{} // state hash -> length of the shortest path it was reached by
	var queue []stateRec
	head := 0
	outbuf := make([][]stateRec, n)
	var sent, recv, seq uint64
	idleWritten := false
	lastStatus := ""
	writeStatus := func(idle bool) {
		s := fmt.Sprintf("%v %d %d", idle, sent, recv)
		if s == lastStatus {
			return
		}
		lastStatus = s
		writeFileAtomic(dir, filepath.Join(dir, fmt.Sprintf("status-%d", me)), []byte(s))
		idleWritten = idle
	}
	writeStatus(false)
	_ = os.WriteFile(filepath.Join(dir, fmt.Sprintf("pid-%d", me)), []byte(strconv.Itoa(os.Getpid())), 0o644)
	idlePolls := 0
	var idleNs, idleSleeps int64
	tStart := time.Now()

	exec := func(path []string) ExecResult {
		var res ExecResult
		for attempt, hard := 0, 0; hard < 3 && attempt < 200; attempt++ {
			res = Exec(t, sc, oracle, path, false)
			if strings.Contains(res.Err, RetryPrefix) {
				p.Add("discarded_random_election_timeouts", 1)
				continue
			}
			if res.Err != "" {
				hard++
			}
			p.Add("executions", 1)
			if p.Counters["executions"]%gcEvery == 0 {
				runtime.GC()
			}
			p.Add("replayed_steps", int64(len(path)))
			if res.Err == "" {
				return res
			}
		}
		abort(dir, fmt.Sprintf("scenario %s path %v: %s", sc.Name, path, res.Err))
		return res
	}
	// Dedup soundness spot check: for a deterministic sample of states (1 in 256 by hash) the
	// first path is kept; when the same canonical state is reached again over a different
	// path, both paths are expanded and must have identical successor states. A mismatch
	// means the canonical key misses something that determines the future: harness error.
	firstPath := map[uint64]string{}
	succKeys := func(path []string, enabled string) string {
		var ks []string
		for _, tr := range splitPath(enabled) {
			var r ExecResult
			for n := 0; n < 200; n++ {
				if r = Exec(t, sc, oracle, append(append([]string{}, path...), tr), false); !strings.Contains(r.Err, RetryPrefix) {
					break
				}
			}
			p.Add("executions", 1)
			ks = append(ks, fmt.Sprintf("%s=%x/%s", tr, vr.Hash64(r.Key), r.Sig))
		}
		return strings.Join(ks, " ")
	}
	depthOf := func(path string) uint8 {
		if path == "" {
			return 0
		}
		return uint8(strings.Count(path, " ") + 1)
	}
	push := func(rec stateRec) {
		d := depthOf(rec.Path)
		if old, ok := seen[rec.Hash]; ok && d < old && sc.DepthBound {
			// reached again by a shorter path: re-expand so that the depth bound is exact
			seen[rec.Hash] = d
			queue = append(queue, rec)
			p.Add("reexpanded_shorter_path", 1)
			return
		}
		if _, ok := seen[rec.Hash]; ok {
			p.Add("dedup_hits", 1)
			if fp, ok := firstPath[rec.Hash]; ok && fp != rec.Path && p.Counters["dedup_bisim_checks"] < 150 {
				p.Add("dedup_bisim_checks", 1)
				a, b := succKeys(splitPath(fp), rec.Enabled), succKeys(splitPath(rec.Path), rec.Enabled)
				if a != b {
					abort(dir, fmt.Sprintf("scenario %s: canonical state key is not a bisimulation: paths [%s] and [%s] have equal keys but different successors\n%s\n%s", sc.Name, fp, rec.Path, a, b))
				}
			}
			return
		}
		seen[rec.Hash] = d
		if (rec.Hash>>8)%256 == 0 {
			firstPath[rec.Hash] = rec.Path
		}
		queue = append(queue, rec)
		p.Max("max_depth", int64(d))
		if rec.Enabled == "" {
			p.Add("terminal_states", 1)
			if p.Counters["samples_"+sc.Name] < 1 {
				p.Counters["samples_"+sc.Name]++
				p.Sample(sc.Name + ": " + rec.Path)
			}
		}
	}
	flush := func(j int) {
		if len(outbuf[j]) == 0 {
			return
		}
		seq++
		tmp := filepath.Join(dir, "tmp", fmt.Sprintf("m-%d-%d", me, seq))
		writeGob(tmp, outbuf[j])
		if err := os.Rename(tmp, filepath.Join(inbox(j), fmt.Sprintf("m-%d-%012d", me, seq))); err != nil {
			vr.Fatalf("clustermc: %v", err)
		}
		sent += uint64(len(outbuf[j]))
		outbuf[j] = nil
	}
	drain := func() {
		ents, err := os.ReadDir(inbox(me))
		if err != nil || len(ents) == 0 {
			return
		}
		if idleWritten {
			writeStatus(false) // must be visible before anything is consumed
		}
		for _, e := range ents {
			f := filepath.Join(inbox(me), e.Name())
			var recs []stateRec
			readGob(f, &recs)
			_ = os.Remove(f)
			recv += uint64(len(recs))
			for _, rec := range recs {
				push(rec)
			}
		}
	}
	exists := func(name string) bool { _, err := os.Stat(filepath.Join(dir, name)); return err == nil }

	root := exec(nil)
	if root.Sig != "" {
		if me == 0 {
			p.Viol(root.Sig, "scenario="+sc.Name+" (initial state) "+root.Desc, replayJSON(sc, nil))
		}
		return
	}
	if rh := vr.Hash64(root.Key); owner(rh) == me {
		push(stateRec{Hash: rh, Path: "", Enabled: strings.Join(root.Enabled, " ")})
	}
	timedOut, complete := false, false
	var prevSnap string
	backoff := time.Millisecond
	expansions := 0
	for {
		if head == len(queue) {
			queue, head = queue[:0], 0
			drain()
		}
		if head == len(queue) {
			for j := 0; j < n; j++ {
				flush(j)
			}
			if n == 1 {
				complete = true
				break
			}
			writeStatus(true)
			if exists("done") {
				complete = true
				break
			}
			if exists("timeout") {
				timedOut = true
				break
			}
			if b, err := os.ReadFile(filepath.Join(dir, "abort")); err == nil {
				vr.Fatalf("clustermc: another worker aborted: %s", b)
			}
			if os.Getppid() == 1 {
				vr.Fatalf("clustermc: parent process is gone")
			}
			if idlePolls++; idlePolls%64 == 0 {
				for j := 0; j < n; j++ {
					if b, err := os.ReadFile(filepath.Join(dir, fmt.Sprintf("pid-%d", j))); err == nil {
						if pid, _ := strconv.Atoi(string(b)); pid > 0 && syscall.Kill(pid, 0) != nil && !exists("done") && !exists("timeout") {
							vr.Fatalf("clustermc: worker %d (pid %d) died", j, pid)
						}
					}
				}
			}
			// termination detection: all idle, sent == received, twice in a row unchanged
			snap, ok := "", true
			var ts, tr uint64
			for j := 0; j < n && ok; j++ {
				b, err := os.ReadFile(filepath.Join(dir, fmt.Sprintf("status-%d", j)))
				if err != nil {
					ok = false
					break
				}
				var idle bool
				var s, r uint64
				if _, err := fmt.Sscanf(string(b), "%t %d %d", &idle, &s, &r); err != nil || !idle {
					ok = false
					break
				}
				ts += s
				tr += r
				snap += string(b) + ";"
			}
			if ok && ts == tr {
				if snap == prevSnap {
					writeFileAtomic(dir, filepath.Join(dir, "done"), []byte("done"))
					complete = true
					break
				}
				prevSnap = snap
			} else {
				prevSnap = ""
			}
			t0 := time.Now()
			time.Sleep(backoff)
			idleNs += time.Since(t0).Nanoseconds()
			idleSleeps++
			if backoff < 16*time.Millisecond {
				backoff *= 2
			}
			continue
		}
		backoff = time.Millisecond
		prevSnap = ""
		st := queue[head]
		head++
		path := splitPath(st.Path)
		if len(path) >= sc.MaxDepth {
			if st.Enabled != "" {
				if sc.DepthBound {
					p.Add("depth_bound_frontier", 1)
				} else {
					p.Add("depth_cut", 1)
				}
			}
			continue
		}
		for _, tr := range splitPath(st.Enabled) {
			if expired() {
				timedOut = true
				break
			}
			child := append(append(make([]string, 0, len(path)+1), path...), tr)
			res := exec(child)
			if res.PrefixKey != st.Hash {
				// nondeterminism leaked: retry once from scratch before giving up
				again := exec(child)
				if again.PrefixKey != st.Hash {
					abort(dir, fmt.Sprintf("scenario %s: replay of %v diverged from the recorded state (nondeterminism leaked into the harness)", sc.Name, path))
				}
				res = again
				p.Add("divergence_retries", 1)
			}
			p.Add("transitions", 1)
			p.Add("validated", 1)
			p.Add("tr:"+tr[:1], 1)
			if res.Sig != "" {
				// confirm on a fresh instance before reporting
				again := exec(child)
				if again.Sig != res.Sig {
					abort(dir, fmt.Sprintf("scenario %s: violation %q at %v not reproduced on re-run (got %q)", sc.Name, res.Sig, child, again.Sig))
				}
				p.Viol(res.Sig, "scenario="+sc.Name+" "+res.Desc+"    schedule: "+strings.Join(child, " "), replayJSON(sc, child))
				continue // do not explore below a violating state
			}
			h := vr.Hash64(res.Key)
			rec := stateRec{Hash: h, Path: strings.Join(child, " "), Enabled: strings.Join(res.Enabled, " ")}
			if o := owner(h); o == me {
				push(rec)
			} else {
				outbuf[o] = append(outbuf[o], rec)
				if len(outbuf[o]) >= 64 {
					flush(o)
				}
			}
		}
		if timedOut {
			writeFileAtomic(dir, filepath.Join(dir, "timeout"), []byte("timeout"))
			break
		}
		if expansions++; expansions%16 == 0 {
			drain()
			if exists("timeout") {
				timedOut = true
				break
			}
			if exists("abort") {
				vr.Fatalf("clustermc: another worker aborted")
			}
		}
	}
	p.Add(pre+"n_states", int64(len(seen)))
	p.Add("porcupine_cross_checks", PorcupineChecks)
	PorcupineChecks = 0
	if os.Getenv("VERIF_CMC_DEBUG") != "" {
		fmt.Fprintf(os.Stderr, "worker %d scenario %s: wall %.1fs idle %.1fs in %d sleeps, execs %d, states owned %d sent %d recv %d\n", me, sc.Name, time.Since(tStart).Seconds(), float64(idleNs)/1e9, idleSleeps, p.Counters["executions"], len(seen), sent, recv)
	}
	m := p.Sets["states"]
	if m == nil {
		m = map[uint64]struct{}{}
		p.Sets["states"] = m
	}
	for h := range seen {
		m[h^vr.Hash64(sc.Name)] = struct{}{}
	}
	if timedOut {
		p.TimedOut = true
	}
	if me == 0 && complete {
		p.Add("closed_scenarios", 1)
	}
}

func writeFileAtomic(dir, path string, data []byte) {
	tmp := filepath.Join(dir, "tmp", fmt.Sprintf("f-%d-%d", os.Getpid(), time.Now().UnixNano()))
	if err := os.WriteFile(tmp, data, 0o644); err != nil {
		vr.Fatalf("clustermc: %v", err)
	}
	if err := os.Rename(tmp, path); err != nil {
		vr.Fatalf("clustermc: %v", err)
	}
}

func replayJSON(sc *Scenario, path []string) string {
	b, _ := json.Marshal(Replay{Scenario: sc.Name, Path: path})
	return string(b)
}

func abort(dir, msg string) {
	_ = os.WriteFile(filepath.Join(dir, "abort"), []byte(msg), 0o644)
	vr.Fatalf("clustermc: %s", msg)
}

func writeGob(path string, v any) {
	tmp := path + ".tmp"
	f, err := os.Create(tmp)
	if err != nil {
		vr.Fatalf("clustermc: %v", err)
	}
	if err := gob.NewEncoder(f).Encode(v); err != nil {
		vr.Fatalf("clustermc: %v", err)
	}
	_ = f.Close()
	if err := os.Rename(tmp, path); err != nil {
		vr.Fatalf("clustermc: %v", err)
	}
}

func readGob(path string, v any) {
	f, err := os.Open(path)
	if err != nil {
		vr.Fatalf("clustermc: %v", err)
	}
	defer f.Close()
	if err := gob.NewDecoder(f).Decode(v); err != nil {
		vr.Fatalf("clustermc: %s: %v", path, err)
	}
}
