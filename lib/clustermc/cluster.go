//go:build verif

// Package clustermc is an explicit-state explorer of a small NoKV raft cluster built from
// the REAL raftstore/store.Store and raftstore/peer.Peer objects. The only harness-owned
// parts are the network (one FIFO queue per directed peer link), the command applier (a
// recording in-memory state machine) and the schedule.
//
// Every execution runs inside a testing/synctest bubble: client calls
// (Store.ProposeCommand / Store.ReadCommand) block, so they run in helper goroutines and
// the harness uses synctest.Wait() to wait until every helper is durably blocked (or has
// returned). That makes each transition deterministic without any wall-clock wait, and the
// real 3 s command/read timeouts run on the bubble's fake clock: they can only fire when
// the harness asks for it (end of the execution).
package clustermc

import (
	"fmt"
	"os"
	"sort"
	"strconv"
	"strings"
	"sync"

	"github.com/feichai0017/NoKV/manifest"
	"github.com/feichai0017/NoKV/pb"
	myraft "github.com/feichai0017/NoKV/raft"
	"github.com/feichai0017/NoKV/raftstore/command"
	"github.com/feichai0017/NoKV/raftstore/peer"
	"github.com/feichai0017/NoKV/raftstore/store"
	"github.com/feichai0017/NoKV/wal"
)

const (
	NumStores     = 3
	ElectionTick  = 10
	HeartbeatTick = 2
)

// OpSpec is one scripted client operation.
type OpSpec struct {
	Kind   string // "w" = ProposeCommand(write key=tag), "r" = ReadCommand(get key)
	Region int    // 1-based region
	Key    string
	Tag    string // unique payload of a write (also the value written)
	Stores []int  // candidate stores (1-based) the op may be issued at
}

// Faults selects which deviation kinds the search may use.
type Faults struct {
	Drop, Dup, Reorder, Campaign, Partition bool
	CampaignAt                              []int // restrict Campaign to peers on these stores (nil = any store)
	IsolateAt                               []int // restrict partitions to isolating one of these stores (nil = any store)
	Restart                                 bool  // crash + restart of a store (WAL-backed scenarios only)
	RestartAt                               []int // restrict restarts to these stores (nil = any)
	ReorderTo                               []int // restrict out-of-order delivery to links into these stores (nil = any)
}

func allowed(set []int, s int) bool {
	if len(set) == 0 {
		return true
	}
	for _, x := range set {
		if x == s {
			return true
		}
	}
	return false
}

func (f Faults) String() string {
	var s []string
	if f.Drop {
		s = append(s, "drop")
	}
	if f.Dup {
		s = append(s, "dup")
	}
	if f.Reorder {
		if len(f.ReorderTo) > 0 {
			s = append(s, fmt.Sprintf("reorder(links into stores %v)", f.ReorderTo))
		} else {
			s = append(s, "reorder")
		}
	}
	if f.Campaign {
		if len(f.CampaignAt) > 0 {
			s = append(s, fmt.Sprintf("campaign@stores%v", f.CampaignAt))
		} else {
			s = append(s, "campaign")
		}
	}
	if f.Partition {
		if len(f.IsolateAt) > 0 {
			s = append(s, fmt.Sprintf("partition(isolate one of %v)+heal", f.IsolateAt))
		} else {
			s = append(s, "partition+heal")
		}
	}
	if f.Restart {
		s = append(s, fmt.Sprintf("crash-restart@stores%v", f.RestartAt))
	}
	if len(s) == 0 {
		return "none"
	}
	return strings.Join(s, "+")
}

// Scenario fixes the cluster shape, the client script and the bounds.
type Scenario struct {
	Name     string
	Regions  int   // 1 or 2
	Leaders  []int // initial leader store (1-based) per region
	Ops      []OpSpec
	Budget   int // deviation budget
	Faults   Faults
	MaxBeats int   // heartbeat rounds (HeartbeatTick ticks each) per leader peer; HeartbeatTick*MaxBeats < ElectionTick
	BeatAt   []int // restrict heartbeat rounds to leader peers on these stores (nil = any)
	// LeaseTickAt: a follower peer on one of these stores may, once per execution, receive
	// ElectionTick ticks of its own (per-store clocks: no lock-step time). That is exactly the
	// point where a CheckQuorum "leader lease" kept by that follower runs out. etcd raft's
	// randomised election timeout lies in [ElectionTick, 2*ElectionTick): with probability
	// 1/ElectionTick the peer campaigns by itself at the last tick; such an execution is
	// discarded and re-run (the self-campaign outcome is covered by explicit Campaign
	// transitions), so the explored outcome is deterministic.
	LeaseTickAt []int
	// Prelude: transitions applied as part of the initial state (after the initial elections)
	Prelude  []string
	MaxDepth int
	// DepthBound: MaxDepth is a declared bound (all states reachable by at most MaxDepth
	// transitions are expanded, exactly). Otherwise MaxDepth is only a safety net and the
	// scenario is expected to close (no enabled transition left anywhere).
	DepthBound bool
	// WAL: every peer uses the production storage stack (engine.WALStorage over a real
	// wal.Manager + manifest.Manager per store, in a per-execution scratch directory)
	// instead of etcd's MemoryStorage.
	WAL bool
}

func (sc *Scenario) Describe() string {
	var ops []string
	for _, o := range sc.Ops {
		ops = append(ops, fmt.Sprintf("%s(r%d,%s,%s)@%v", o.Kind, o.Region, o.Key, o.Tag, o.Stores))
	}
	depth := "until closed"
	if sc.DepthBound {
		depth = fmt.Sprintf("depth<=%d", sc.MaxDepth)
	}
	storage := "MemoryStorage"
	if sc.WAL {
		storage = "WALStorage(wal+manifest on tmpfs)"
	}
	if len(sc.LeaseTickAt) > 0 {
		storage += fmt.Sprintf(" follower-clock-advance(%d ticks)@stores%v", ElectionTick, sc.LeaseTickAt)
	}
	if len(sc.Prelude) > 0 {
		storage += " prelude=[" + strings.Join(sc.Prelude, " ") + "]"
	}
	beats := fmt.Sprint(sc.MaxBeats)
	if len(sc.BeatAt) > 0 && sc.MaxBeats > 0 {
		beats += fmt.Sprintf("@stores%v", sc.BeatAt)
	}
	return fmt.Sprintf("%s: regions=%d leaders=%v ops=[%s] deviations<=%d faults=%s heartbeat-rounds<=%s %s raft-log=%s",
		sc.Name, sc.Regions, sc.Leaders, strings.Join(ops, " "), sc.Budget, sc.Faults, beats, depth, storage)
}

func peerID(region, storeIdx int) uint64 { return uint64(region*10 + storeIdx) }
func storeOf(id uint64) int              { return int(id % 10) }
func regionOf(id uint64) int             { return int(id / 10) }

type link struct{ from, to uint64 }

func (l link) String() string { return fmt.Sprintf("%d>%d", l.from, l.to) }

// network is the harness-owned transport: one FIFO queue per directed peer link.
type network struct {
	mu       sync.Mutex
	q        map[link][]myraft.Message
	isolated int // 0 = none, else 1-based store cut off from the other two
	sent     int
	lost     int // messages discarded by a partition
}

func (n *network) cut(from, to uint64) bool {
	if n.isolated == 0 {
		return false
	}
	a, b := storeOf(from), storeOf(to)
	return (a == n.isolated) != (b == n.isolated)
}

// Send implements transport.Transport.
func (n *network) Send(msg myraft.Message) {
	n.mu.Lock()
	defer n.mu.Unlock()
	n.sent++
	if n.cut(msg.From, msg.To) {
		n.lost++
		return
	}
	l := link{msg.From, msg.To}
	n.q[l] = append(n.q[l], msg)
}

func (n *network) links() []link {
	n.mu.Lock()
	defer n.mu.Unlock()
	out := make([]link, 0, len(n.q))
	for l, q := range n.q {
		if len(q) > 0 {
			out = append(out, l)
		}
	}
	sort.Slice(out, func(i, j int) bool {
		if out[i].from != out[j].from {
			return out[i].from < out[j].from
		}
		return out[i].to < out[j].to
	})
	return out
}

func (n *network) take(l link, k int, remove bool) (myraft.Message, bool) {
	n.mu.Lock()
	defer n.mu.Unlock()
	q := n.q[l]
	if k < 0 || k >= len(q) {
		return myraft.Message{}, false
	}
	m := q[k]
	if remove {
		nq := make([]myraft.Message, 0, len(q)-1)
		nq = append(nq, q[:k]...)
		nq = append(nq, q[k+1:]...)
		if len(nq) == 0 {
			delete(n.q, l)
		} else {
			n.q[l] = nq
		}
	}
	return m, true
}

func (n *network) depth(l link) int {
	n.mu.Lock()
	defer n.mu.Unlock()
	return len(n.q[l])
}

func (n *network) isolate(s int) {
	n.mu.Lock()
	defer n.mu.Unlock()
	n.isolated = s
	for l, q := range n.q {
		if n.cut(l.from, l.to) {
			n.lost += len(q)
			delete(n.q, l)
		}
	}
}

// appliedRec is one command applied by a store's state machine.
type appliedRec struct {
	Region uint64
	Tag    string
	ReqID  uint64
	Peer   uint64 // proposer peer id recorded in the command header
}

// recorder is the per-store recording state machine handed to the store as CommandApplier.
type recorder struct {
	mu      sync.Mutex
	applied []appliedRec
	kv      map[string]string
	reads   int
}

func echoOf(tag string) string { return "applied:" + tag }

func (rc *recorder) apply(req *pb.RaftCmdRequest) (*pb.RaftCmdResponse, error) {
	rc.mu.Lock()
	defer rc.mu.Unlock()
	resp := &pb.RaftCmdResponse{Header: req.GetHeader()}
	for _, r := range req.GetRequests() {
		switch r.GetCmdType() {
		case pb.CmdType_CMD_PREWRITE:
			var tags []string
			for _, m := range r.GetPrewrite().GetMutations() {
				tag := string(m.GetValue())
				rc.applied = append(rc.applied, appliedRec{Region: req.GetHeader().GetRegionId(), Tag: tag,
					ReqID: req.GetHeader().GetRequestId(), Peer: req.GetHeader().GetPeerId()})
				rc.kv[string(m.GetKey())] = tag
				tags = append(tags, tag)
			}
			// the "result computed for this payload": an echo of the payload
			resp.Responses = append(resp.Responses, &pb.Response{Cmd: &pb.Response_Get{Get: &pb.GetResponse{Value: []byte(echoOf(strings.Join(tags, ",")))}}})
		case pb.CmdType_CMD_GET:
			rc.reads++
			v, ok := rc.kv[string(r.GetGet().GetKey())]
			resp.Responses = append(resp.Responses, &pb.Response{Cmd: &pb.Response_Get{Get: &pb.GetResponse{Value: []byte(v), NotFound: !ok}}})
		default:
			return nil, fmt.Errorf("clustermc: unexpected command type %v", r.GetCmdType())
		}
	}
	return resp, nil
}

func (rc *recorder) list(region int) []appliedRec {
	rc.mu.Lock()
	defer rc.mu.Unlock()
	var out []appliedRec
	for _, a := range rc.applied {
		if int(a.Region) == region {
			out = append(out, a)
		}
	}
	return out
}

// Call is one issued client operation.
type Call struct {
	Op        int
	Spec      OpSpec
	Store     int    // 1-based store it was issued at
	Role      string // the store's own raft role for the region when the call was issued
	DoneAt    uint64 // bitmask of calls that had already returned when this one was issued
	IssueStep int

	mu      sync.Mutex
	done    bool
	retStep int
	outcome string // canonical classification, see classify
	echo    string // ok writes: echoed payload; ok reads: value ("" + notfound flag)
	req     *pb.RaftCmdRequest
}

func (c *Call) snapshot() (done bool, outcome, echo string, ret int) {
	c.mu.Lock()
	defer c.mu.Unlock()
	return c.done, c.outcome, c.echo, c.retStep
}

// Outcome classes.
const (
	OutOK        = "ok"        // write acknowledged / read served
	OutNotLeader = "notleader" // RegionError.NotLeader
	OutEpoch     = "epoch"     // RegionError.EpochNotMatch
	OutErr       = "err"       // Go error (timeout, dropped proposal, ...)
)

// Cluster is one live 3-store cluster.
type Cluster struct {
	sc       *Scenario
	stores   [NumStores + 1]*store.Store
	recs     [NumStores + 1]*recorder
	peers    map[uint64]*peer.Peer
	pids     []uint64
	metas    map[int]manifest.RegionMeta
	net      *network
	calls    []*Call
	devs     int
	beats    map[uint64]int
	step     int
	errs     []string            // raft Step errors observed (part of the state)
	votes    map[uint64][]string // per peer: (pre)vote responses delivered to it (raft keeps the tally privately)
	wait     func()              // synctest.Wait
	closed   bool
	restarts [NumStores + 1]int
	lease    map[uint64]int // follower peers that already received their ElectionTick ticks
	dir      string
	wals     [NumStores + 1]*wal.Manager
	mans     [NumStores + 1]*manifest.Manager
}

// RetryPrefix marks an execution error that stems from raft's internal randomness: the
// execution is discarded and re-run.
const RetryPrefix = "nondeterministic-outcome-discarded: "

// ScratchBase is the directory under which WAL-backed scenarios create their per-execution
// directories (set by the runner; on tmpfs).
var ScratchBase string

var execSeq int

type discardLogger struct{}

func (discardLogger) Debug(v ...any)                   {}
func (discardLogger) Debugf(format string, v ...any)   {}
func (discardLogger) Error(v ...any)                   {}
func (discardLogger) Errorf(format string, v ...any)   {}
func (discardLogger) Info(v ...any)                    {}
func (discardLogger) Infof(format string, v ...any)    {}
func (discardLogger) Warning(v ...any)                 {}
func (discardLogger) Warningf(format string, v ...any) {}
func (discardLogger) Fatal(v ...any)                   { panic(fmt.Sprint(v...)) }
func (discardLogger) Fatalf(format string, v ...any)   { panic(fmt.Sprintf(format, v...)) }
func (discardLogger) Panic(v ...any)                   { panic(fmt.Sprint(v...)) }
func (discardLogger) Panicf(format string, v ...any)   { panic(fmt.Sprintf(format, v...)) }

var loggerOnce sync.Once

// NewCluster builds the cluster and drives the initial elections (Campaign at the chosen
// leader of each region, all messages delivered in link order until the network is empty).
// wait must be synctest.Wait (the cluster must live inside a synctest bubble).
func NewCluster(sc *Scenario, wait func()) (*Cluster, error) {
	loggerOnce.Do(func() { myraft.SetLogger(discardLogger{}) })
	c := &Cluster{sc: sc, peers: map[uint64]*peer.Peer{}, metas: map[int]manifest.RegionMeta{},
		net: &network{q: map[link][]myraft.Message{}}, beats: map[uint64]int{}, votes: map[uint64][]string{}, lease: map[uint64]int{}, wait: wait}
	if sc.WAL {
		if ScratchBase == "" {
			return nil, fmt.Errorf("clustermc: ScratchBase not set for a WAL-backed scenario")
		}
		execSeq++
		c.dir = fmt.Sprintf("%s/x%d-%d", ScratchBase, os.Getpid(), execSeq)
	}
	for s := 1; s <= NumStores; s++ {
		if err := c.openStore(s); err != nil {
			return nil, err
		}
	}
	for r := 1; r <= sc.Regions; r++ {
		meta := manifest.RegionMeta{ID: uint64(r), Epoch: manifest.RegionEpoch{Version: 1, ConfVersion: 1}, State: manifest.RegionStateRunning}
		if sc.Regions == 2 {
			if r == 1 {
				meta.EndKey = []byte("m")
			} else {
				meta.StartKey = []byte("m")
			}
		}
		var boot []myraft.Peer
		for s := 1; s <= NumStores; s++ {
			meta.Peers = append(meta.Peers, manifest.PeerMeta{StoreID: uint64(s), PeerID: peerID(r, s)})
			boot = append(boot, myraft.Peer{ID: peerID(r, s)})
		}
		c.metas[r] = meta
		for s := 1; s <= NumStores; s++ {
			if err := c.startPeer(r, s); err != nil {
				return nil, err
			}
			c.pids = append(c.pids, peerID(r, s))
		}
	}
	sort.Slice(c.pids, func(i, j int) bool { return c.pids[i] < c.pids[j] })
	// initial elections
	for r := 1; r <= sc.Regions; r++ {
		id := peerID(r, sc.Leaders[r-1])
		if err := c.peers[id].Campaign(); err != nil {
			return nil, fmt.Errorf("campaign %d: %w", id, err)
		}
		for n := 0; ; n++ {
			ls := c.net.links()
			if len(ls) == 0 {
				break
			}
			if n > 1000 {
				return nil, fmt.Errorf("initial election does not quiesce")
			}
			for _, l := range ls {
				for c.net.depth(l) > 0 {
					if err := c.deliver(l, 0, true); err != nil {
						return nil, err
					}
				}
			}
		}
		if st := c.peers[id].Status(); st.RaftState != myraft.StateLeader {
			return nil, fmt.Errorf("peer %d did not become leader: %v", id, st.RaftState)
		}
	}
	// fixed prelude (part of the initial state; its deviations are not charged)
	for _, tr := range sc.Prelude {
		if err := c.Apply(tr); err != nil {
			return nil, fmt.Errorf("prelude %q: %w", tr, err)
		}
	}
	c.net.sent, c.net.lost = 0, 0
	c.errs = nil
	c.devs, c.step = 0, 0
	for k := range c.beats {
		delete(c.beats, k)
	}
	return c, nil
}

// openStore creates (or, after a crash, re-creates) store s: fresh recorder, and for WAL
// scenarios the WAL and manifest managers opened on the store's directory.
func (c *Cluster) openStore(s int) error {
	rc := &recorder{kv: map[string]string{}}
	c.recs[s] = rc
	cfg := store.Config{StoreID: uint64(s), CommandApplier: rc.apply}
	if c.sc.WAL {
		// as in production (cmd/nokv serve): one WAL manager and one manifest per store,
		// shared by the store's region catalog and all of its peers
		w, err := wal.Open(wal.Config{Dir: fmt.Sprintf("%s/s%d/wal", c.dir, s), BufferSize: 8 << 10}) // small I/O buffer: performance knob only
		if err != nil {
			return err
		}
		m, err := manifest.Open(fmt.Sprintf("%s/s%d/manifest", c.dir, s), nil)
		if err != nil {
			return err
		}
		c.wals[s], c.mans[s] = w, m
		cfg.Manifest = m
	}
	c.stores[s] = store.NewStoreWithConfig(cfg)
	return nil
}

func (c *Cluster) startPeer(r, s int) error {
	meta := c.metas[r]
	var boot []myraft.Peer
	for _, pm := range meta.Peers {
		boot = append(boot, myraft.Peer{ID: pm.PeerID})
	}
	id := peerID(r, s)
	cfg := &peer.Config{
		// the production settings of cmd/nokv serve / raftstore/server
		RaftConfig: myraft.Config{ID: id, ElectionTick: ElectionTick, HeartbeatTick: HeartbeatTick,
			MaxSizePerMsg: 1 << 20, MaxInflightMsgs: 256, PreVote: true},
		Transport: c.net,
		Apply:     func([]myraft.Entry) error { return fmt.Errorf("clustermc: store did not install its applier") },
		GroupID:   uint64(r),
		Region:    manifest.CloneRegionMetaPtr(&meta),
		WAL:       c.wals[s],
		Manifest:  c.mans[s],
	}
	p, err := c.stores[s].StartPeer(cfg, boot)
	if err != nil {
		return fmt.Errorf("start peer %d: %w", id, err)
	}
	c.peers[id] = p
	return nil
}

// crashRestart models the death of store s's process and its restart: all in-memory state
// of the store and its peers is dropped (nothing is shut down cleanly: no StopPeer, no
// region state change), the WAL and manifest are reopened from their files, the peers are
// rebuilt from them exactly like at start-up, and the state machine is rebuilt by raft
// re-delivering the committed log (the recorder starts empty, as raft's applied index
// does). Every raft write is fsynced before it is acted on, so plain reopen = crash image.
func (c *Cluster) crashRestart(s int) error {
	if !c.sc.WAL {
		return fmt.Errorf("restart needs a WAL-backed scenario")
	}
	for _, id := range c.pids {
		if storeOf(id) == s {
			_ = c.peers[id].Close()
			delete(c.votes, id)
		}
	}
	c.stores[s].Close()
	_ = c.wals[s].Close()
	_ = c.mans[s].Close()
	if err := c.openStore(s); err != nil {
		return err
	}
	for r := 1; r <= c.sc.Regions; r++ {
		if err := c.startPeer(r, s); err != nil {
			return err
		}
	}
	for _, id := range c.pids {
		if storeOf(id) == s {
			if err := c.peers[id].Flush(); err != nil { // what the first tick after start-up does
				c.errs = append(c.errs, fmt.Sprintf("flush%d:%v", id, err))
			}
		}
	}
	c.restarts[s]++
	return nil
}

// Close stops every peer (pending ReadIndex waiters return) and the stores.
func (c *Cluster) Close() {
	if c.closed {
		return
	}
	c.closed = true
	for s := 1; s <= NumStores; s++ {
		for _, id := range c.pids {
			if storeOf(id) == s {
				c.stores[s].StopPeer(id)
			}
		}
		c.stores[s].Close()
		if c.wals[s] != nil {
			_ = c.wals[s].Close()
		}
		if c.mans[s] != nil {
			_ = c.mans[s].Close()
		}
	}
	if c.dir != "" {
		_ = os.RemoveAll(c.dir)
	}
}

func (c *Cluster) deliver(l link, k int, remove bool) error {
	m, ok := c.net.take(l, k, remove)
	if !ok {
		return fmt.Errorf("no message %d on link %s", k, l)
	}
	if m.Type == myraft.MsgRequestVoteResponse || m.Type.String() == "MsgPreVoteResp" {
		c.votes[m.To] = append(c.votes[m.To], fmt.Sprintf("%d:%s:t%d:%v", m.From, m.Type, m.Term, m.Reject))
	}
	if err := c.stores[storeOf(m.To)].Step(m); err != nil {
		c.errs = append(c.errs, fmt.Sprintf("%s:%v", l, err))
	}
	return nil
}

// Enabled lists the transitions enabled in the current state, zero-cost ones first.
func (c *Cluster) Enabled() []string {
	var out []string
	links := c.net.links()
	for _, l := range links {
		out = append(out, "d:"+l.String())
	}
	next := len(c.calls)
	if next < len(c.sc.Ops) {
		for _, s := range c.sc.Ops[next].Stores {
			out = append(out, "i:"+strconv.Itoa(s))
		}
	}
	for _, id := range c.pids {
		if c.beats[id] < c.sc.MaxBeats && allowed(c.sc.BeatAt, storeOf(id)) && c.peers[id].Status().RaftState == myraft.StateLeader {
			out = append(out, "b:"+strconv.FormatUint(id, 10))
		}
	}
	if len(c.sc.LeaseTickAt) > 0 {
		for _, id := range c.pids {
			if c.lease[id] == 0 && allowed(c.sc.LeaseTickAt, storeOf(id)) && c.peers[id].Status().RaftState == myraft.StateFollower {
				out = append(out, "e:"+strconv.FormatUint(id, 10))
			}
		}
	}
	if c.devs >= c.sc.Budget {
		return out
	}
	f := c.sc.Faults
	for _, l := range links {
		if f.Drop {
			out = append(out, "x:"+l.String())
		}
		if f.Dup {
			out = append(out, "u:"+l.String())
		}
		if f.Reorder && allowed(f.ReorderTo, storeOf(l.to)) {
			for k := 1; k < c.net.depth(l); k++ {
				out = append(out, fmt.Sprintf("o:%s:%d", l, k))
			}
		}
	}
	if f.Campaign {
		for _, id := range c.pids {
			if allowed(f.CampaignAt, storeOf(id)) && c.peers[id].Status().RaftState != myraft.StateLeader {
				out = append(out, "c:"+strconv.FormatUint(id, 10))
			}
		}
	}
	if f.Restart && c.sc.WAL {
		for s := 1; s <= NumStores; s++ {
			if allowed(f.RestartAt, s) {
				out = append(out, "r:"+strconv.Itoa(s))
			}
		}
	}
	if f.Partition {
		if c.net.isolated == 0 {
			for s := 1; s <= NumStores; s++ {
				if allowed(f.IsolateAt, s) {
					out = append(out, "p:"+strconv.Itoa(s))
				}
			}
		} else {
			out = append(out, "h")
		}
	}
	return out
}

func parseLink(s string) (link, error) {
	a, b, ok := strings.Cut(s, ">")
	if !ok {
		return link{}, fmt.Errorf("bad link %q", s)
	}
	f, err1 := strconv.ParseUint(a, 10, 64)
	t, err2 := strconv.ParseUint(b, 10, 64)
	if err1 != nil || err2 != nil {
		return link{}, fmt.Errorf("bad link %q", s)
	}
	return link{f, t}, nil
}

// Apply performs one transition and waits until every helper goroutine is blocked or done.
func (c *Cluster) Apply(tr string) error {
	kind, arg, _ := strings.Cut(tr, ":")
	c.step++
	switch kind {
	case "d", "x", "u":
		l, err := parseLink(arg)
		if err != nil {
			return err
		}
		switch kind {
		case "d":
			err = c.deliver(l, 0, true)
		case "x":
			c.devs++
			if _, ok := c.net.take(l, 0, true); !ok {
				err = fmt.Errorf("nothing to drop on %s", l)
			}
		case "u":
			c.devs++
			err = c.deliver(l, 0, false)
		}
		if err != nil {
			return err
		}
	case "o":
		ls, ks, _ := strings.Cut(arg, ":")
		l, err := parseLink(ls)
		if err != nil {
			return err
		}
		k, err := strconv.Atoi(ks)
		if err != nil || k < 1 {
			return fmt.Errorf("bad reorder index in %q", tr)
		}
		c.devs++
		if err := c.deliver(l, k, true); err != nil {
			return err
		}
	case "b", "c":
		id, err := strconv.ParseUint(arg, 10, 64)
		if err != nil || c.peers[id] == nil {
			return fmt.Errorf("bad peer in %q", tr)
		}
		if kind == "b" {
			c.beats[id]++
			for i := 0; i < HeartbeatTick; i++ {
				if err := c.peers[id].Tick(); err != nil {
					c.errs = append(c.errs, fmt.Sprintf("tick%d:%v", id, err))
				}
			}
		} else {
			c.devs++
			delete(c.votes, id) // raft starts a fresh tally with every campaign
			if err := c.peers[id].Campaign(); err != nil {
				c.errs = append(c.errs, fmt.Sprintf("campaign%d:%v", id, err))
			}
		}
	case "e":
		id, err := strconv.ParseUint(arg, 10, 64)
		if err != nil || c.peers[id] == nil || c.lease[id] != 0 {
			return fmt.Errorf("bad lease tick %q", tr)
		}
		c.lease[id]++
		for i := 0; i < ElectionTick; i++ {
			if err := c.peers[id].Tick(); err != nil {
				c.errs = append(c.errs, fmt.Sprintf("tick%d:%v", id, err))
			}
		}
		if c.peers[id].Status().RaftState != myraft.StateFollower {
			return fmt.Errorf("%speer %d hit its randomised election timeout at tick %d", RetryPrefix, id, ElectionTick)
		}
	case "r":
		s, err := strconv.Atoi(arg)
		if err != nil || s < 1 || s > NumStores {
			return fmt.Errorf("bad restart %q", tr)
		}
		c.devs++
		if err := c.crashRestart(s); err != nil {
			return err
		}
	case "p":
		s, err := strconv.Atoi(arg)
		if err != nil || s < 1 || s > NumStores || c.net.isolated != 0 {
			return fmt.Errorf("bad partition %q", tr)
		}
		c.devs++
		c.net.isolate(s)
	case "h":
		if c.net.isolated == 0 {
			return fmt.Errorf("heal without partition")
		}
		c.devs++
		c.net.isolate(0)
	case "i":
		s, err := strconv.Atoi(arg)
		if err != nil || s < 1 || s > NumStores {
			return fmt.Errorf("bad store in %q", tr)
		}
		if err := c.issue(s); err != nil {
			return err
		}
	default:
		return fmt.Errorf("unknown transition %q", tr)
	}
	c.wait()
	c.collect()
	return nil
}

func (c *Cluster) issue(s int) error {
	n := len(c.calls)
	if n >= len(c.sc.Ops) {
		return fmt.Errorf("script exhausted")
	}
	spec := c.sc.Ops[n]
	meta := c.metas[spec.Region]
	call := &Call{Op: n, Spec: spec, Store: s, IssueStep: c.step}
	call.Role = c.peers[peerID(spec.Region, s)].Status().RaftState.String()
	for _, o := range c.calls {
		if d, _, _, _ := o.snapshot(); d {
			call.DoneAt |= 1 << uint(o.Op)
		}
	}
	hdr := &pb.CmdHeader{RegionId: meta.ID, RegionEpoch: &pb.RegionEpoch{Version: meta.Epoch.Version, ConfVer: meta.Epoch.ConfVersion}}
	st := c.stores[s]
	switch spec.Kind {
	case "w":
		call.req = &pb.RaftCmdRequest{Header: hdr, Requests: []*pb.Request{{CmdType: pb.CmdType_CMD_PREWRITE,
			Cmd: &pb.Request_Prewrite{Prewrite: &pb.PrewriteRequest{Mutations: []*pb.Mutation{{Op: pb.Mutation_Put, Key: []byte(spec.Key), Value: []byte(spec.Tag)}},
				PrimaryLock: []byte(spec.Key), StartVersion: 1}}}}}
	case "r":
		call.req = &pb.RaftCmdRequest{Header: hdr, Requests: []*pb.Request{{CmdType: pb.CmdType_CMD_GET,
			Cmd: &pb.Request_Get{Get: &pb.GetRequest{Key: []byte(spec.Key), Version: 1}}}}}
	default:
		return fmt.Errorf("bad op kind %q", spec.Kind)
	}
	c.calls = append(c.calls, call)
	go func() {
		var resp *pb.RaftCmdResponse
		var err error
		if spec.Kind == "w" {
			resp, err = st.ProposeCommand(call.req)
		} else {
			resp, err = st.ReadCommand(call.req)
		}
		outcome, echo := classify(resp, err)
		call.mu.Lock()
		call.done, call.outcome, call.echo = true, outcome, echo
		call.mu.Unlock()
	}()
	return nil
}

func classify(resp *pb.RaftCmdResponse, err error) (outcome, echo string) {
	if err != nil {
		return OutErr, err.Error()
	}
	if re := resp.GetRegionError(); re != nil {
		switch {
		case re.GetNotLeader() != nil:
			return OutNotLeader, ""
		case re.GetEpochNotMatch() != nil:
			return OutEpoch, ""
		default:
			return OutErr, "region-error"
		}
	}
	var parts []string
	for _, r := range resp.GetResponses() {
		g := r.GetGet()
		if g == nil {
			parts = append(parts, "?")
		} else if g.GetNotFound() {
			parts = append(parts, "<notfound>")
		} else {
			parts = append(parts, string(g.GetValue()))
		}
	}
	if len(parts) == 0 {
		parts = append(parts, "<empty>")
	}
	return OutOK, strings.Join(parts, ",")
}

// collect stamps the return step of calls that completed during the last transition.
func (c *Cluster) collect() {
	for _, call := range c.calls {
		call.mu.Lock()
		if call.done && call.retStep == 0 {
			call.retStep = c.step
		}
		call.mu.Unlock()
	}
}

// entryCmdTags returns the payload tags of the write commands carried by a log entry.
func entryCmdTags(e myraft.Entry) []string {
	if e.Type != myraft.EntryNormal || len(e.Data) == 0 {
		return nil
	}
	req, ok, err := command.Decode(e.Data)
	if err != nil || !ok {
		return nil
	}
	var tags []string
	for _, r := range req.GetRequests() {
		for _, m := range r.GetPrewrite().GetMutations() {
			tags = append(tags, string(m.GetValue()))
		}
	}
	return tags
}

func entryTag(e myraft.Entry) string {
	if e.Type != myraft.EntryNormal {
		return "cc"
	}
	if len(e.Data) == 0 {
		return "-"
	}
	req, ok, err := command.Decode(e.Data)
	if err != nil || !ok {
		return "?"
	}
	var tags []string
	for _, r := range req.GetRequests() {
		for _, m := range r.GetPrewrite().GetMutations() {
			tags = append(tags, string(m.GetValue()))
		}
	}
	return fmt.Sprintf("%s#%d", strings.Join(tags, ","), req.GetHeader().GetRequestId())
}

func msgString(m myraft.Message) string {
	var sb strings.Builder
	fmt.Fprintf(&sb, "%s t%d lt%d i%d c%d", m.Type, m.Term, m.LogTerm, m.Index, m.Commit)
	if m.Reject {
		fmt.Fprintf(&sb, " rej%d", m.RejectHint)
	}
	if len(m.Context) > 0 {
		fmt.Fprintf(&sb, " ctx%x", m.Context)
	}
	for _, e := range m.Entries {
		fmt.Fprintf(&sb, " [%d/%d %s]", e.Index, e.Term, entryTag(e))
	}
	if m.Snapshot != nil && !myraft.IsEmptySnap(*m.Snapshot) {
		fmt.Fprintf(&sb, " snap%d/%d", m.Snapshot.Metadata.Index, m.Snapshot.Metadata.Term)
	}
	return sb.String()
}

// Key is the canonical state: equal keys imply equal futures (see the package doc of the
// checks for the trusted-base caveat on raft-internal counters).
func (c *Cluster) Key() string {
	var sb strings.Builder
	fmt.Fprintf(&sb, "dev=%d iso=%d\n", c.devs, c.net.isolated)
	for _, id := range c.pids {
		p := c.peers[id]
		st := p.Status()
		ents, hs, err := p.VerifLog()
		if err != nil {
			fmt.Fprintf(&sb, "logerr=%v ", err)
		}
		fmt.Fprintf(&sb, "P%d %s t%d v%d c%d a%d/%d lead%d xfer%d hs=%d/%d/%d beats%d/%d log:", id, st.RaftState, st.Term, st.Vote, st.Commit,
			st.Applied, p.VerifAppliedMark(), st.Lead, st.LeadTransferee, hs.Term, hs.Vote, hs.Commit, c.beats[id], c.lease[id])
		for _, e := range ents {
			fmt.Fprintf(&sb, " %d/%d:%s", e.Index, e.Term, entryTag(e))
		}
		if c.sc.Faults.Restart && allowed(c.sc.Faults.RestartAt, storeOf(id)) {
			// what a crash-restart of this peer would recover (part of the future once restarts are possible)
			if dhs, ok, err := p.VerifDurableHardState(); ok {
				fmt.Fprintf(&sb, " durable=%d/%d/%d", dhs.Term, dhs.Vote, dhs.Commit)
				if err != nil {
					fmt.Fprintf(&sb, "(err %v)", err)
				}
			}
		}
		if len(st.Progress) > 0 {
			ids := make([]uint64, 0, len(st.Progress))
			for k := range st.Progress {
				ids = append(ids, k)
			}
			sort.Slice(ids, func(i, j int) bool { return ids[i] < ids[j] })
			for _, k := range ids {
				pr := st.Progress[k]
				fmt.Fprintf(&sb, " pr%d{%s}", k, pr.String())
			}
		}
		if st.RaftState == myraft.StateCandidate || st.RaftState == myraft.StatePreCandidate {
			vs := append([]string(nil), c.votes[id]...)
			sort.Strings(vs)
			fmt.Fprintf(&sb, " votes%v", vs)
		}
		fmt.Fprintf(&sb, " reads%d\n", p.VerifPendingReads())
	}
	c.net.mu.Lock()
	ls := make([]link, 0, len(c.net.q))
	for l := range c.net.q {
		ls = append(ls, l)
	}
	sort.Slice(ls, func(i, j int) bool {
		if ls[i].from != ls[j].from {
			return ls[i].from < ls[j].from
		}
		return ls[i].to < ls[j].to
	})
	for _, l := range ls {
		fmt.Fprintf(&sb, "L%s:", l)
		for _, m := range c.net.q[l] {
			sb.WriteString(" {" + msgString(m) + "}")
		}
		sb.WriteString("\n")
	}
	c.net.mu.Unlock()
	for s := 1; s <= NumStores; s++ {
		ids, seq := c.stores[s].VerifPendingProposals()
		fmt.Fprintf(&sb, "S%d inc%d seq%d pend%v applied:", s, c.restarts[s], seq, ids)
		c.recs[s].mu.Lock()
		for _, a := range c.recs[s].applied {
			fmt.Fprintf(&sb, " r%d:%s#%d", a.Region, a.Tag, a.ReqID)
		}
		fmt.Fprintf(&sb, " reads%d\n", c.recs[s].reads)
		c.recs[s].mu.Unlock()
	}
	for _, call := range c.calls {
		d, o, e, _ := call.snapshot()
		fmt.Fprintf(&sb, "C%d @%d %s after%b done=%v %s %q id%d\n", call.Op, call.Store, call.Role, call.DoneAt, d, o, e, call.req.GetHeader().GetRequestId())
	}
	if len(c.errs) > 0 {
		fmt.Fprintf(&sb, "errs=%v\n", c.errs)
	}
	return sb.String()
}

// Calls returns the issued calls (read-only use by oracles).
func (c *Cluster) Calls() []*Call { return c.calls }
