//go:build verif

package clustermc

import (
	"fmt"
	"sort"
	"strings"

	"github.com/anishathalye/porcupine"
)

// PorcupineChecks counts histories on which the brute-force linearizability verdict was
// cross-checked against porcupine (a disagreement panics: harness error).
var PorcupineChecks int64

type regIn struct {
	write bool
	val   string
}

var registerModel = porcupine.Model{
	Init: func() interface{} { return "" },
	Step: func(state, input, output interface{}) (bool, interface{}) {
		in := input.(regIn)
		if in.write {
			return true, in.val
		}
		return output.(string) == state.(string), state
	},
	Equal: func(a, b interface{}) bool { return a.(string) == b.(string) },
}

// porcupineLinearizable is the second opinion: an unacknowledged write returns "at the end
// of time" (for a register, never taking effect = taking effect after everything else).
func porcupineLinearizable(ops []linOp, issue, ret map[int]int) bool {
	var hist []porcupine.Operation
	for _, o := range ops {
		r := int64(1) << 40
		if o.definite {
			r = int64(ret[o.idx])*2 + 1
		}
		hist = append(hist, porcupine.Operation{ClientId: o.idx, Input: regIn{o.write, o.val}, Call: int64(issue[o.idx]) * 2, Output: o.val, Return: r})
	}
	return porcupine.CheckOperations(registerModel, hist)
}

// Oracle evaluates a property in the current state; sig=="" means it holds.
type Oracle func(c *Cluster) (sig, desc string)

func (c *Cluster) describeCalls() string {
	var sb strings.Builder
	for _, call := range c.calls {
		d, o, e, ret := call.snapshot()
		fmt.Fprintf(&sb, "    op%d %s(r%d,%s,%s) at store %d (own role %s) issued@%d", call.Op, call.Spec.Kind, call.Spec.Region, call.Spec.Key, call.Spec.Tag, call.Store, call.Role, call.IssueStep)
		if d {
			fmt.Fprintf(&sb, " returned@%d %s %q request_id=%d\n", ret, o, e, call.req.GetHeader().GetRequestId())
		} else {
			fmt.Fprintf(&sb, " pending request_id=%d\n", call.req.GetHeader().GetRequestId())
		}
	}
	for s := 1; s <= NumStores; s++ {
		fmt.Fprintf(&sb, "    store %d applied:", s)
		c.recs[s].mu.Lock()
		for _, a := range c.recs[s].applied {
			fmt.Fprintf(&sb, " r%d:%s(request_id=%d,proposer=%d)", a.Region, a.Tag, a.ReqID, a.Peer)
		}
		c.recs[s].mu.Unlock()
		sb.WriteString("\n")
	}
	return sb.String()
}

func (c *Cluster) regionOfTag(tag string) int {
	for _, o := range c.sc.Ops {
		if o.Kind == "w" && o.Tag == tag {
			return o.Region
		}
	}
	return 0
}

// OracleC22: per region every store's applied list is a prefix of one sequence; no command
// is applied twice; a proposal that returned success was applied exactly once (and by the
// answering store) and its response is the result computed for its own payload.
func OracleC22(c *Cluster) (string, string) {
	// response carries the result of the caller's own command
	for _, call := range c.calls {
		d, o, e, _ := call.snapshot()
		if !d || call.Spec.Kind != "w" || o != OutOK {
			continue
		}
		if e == echoOf(call.Spec.Tag) {
			continue
		}
		other := strings.TrimPrefix(e, "applied:")
		kind := "unknown-result"
		if r := c.regionOfTag(other); r != 0 {
			if r != call.Spec.Region {
				kind = "cross-region"
			} else {
				kind = "same-region"
			}
		}
		cause := "request-ids-differ"
		myID := call.req.GetHeader().GetRequestId()
		for _, a := range c.recs[call.Store].list(c.regionOfTag(other)) {
			if a.Tag == other && a.ReqID == myID {
				cause = "request-id-collision"
			}
		}
		return fmt.Sprintf("wrong-result kind=%s cause=%s", kind, cause),
			fmt.Sprintf("ProposeCommand for %s (region %d, store %d, request id %d) returned success carrying the result %q of a different command\n%s",
				call.Spec.Tag, call.Spec.Region, call.Store, myID, e, c.describeCalls())
	}
	// election safety: at most one leader per term (two leaders of one term replicate
	// different commands at the same index and term; followers cannot tell them apart)
	for r := 1; r <= c.sc.Regions; r++ {
		leaders := map[uint64]uint64{}
		for _, id := range c.pids {
			if regionOf(id) != r {
				continue
			}
			if st := c.peers[id].Status(); st.RaftState.String() == "StateLeader" {
				if other, ok := leaders[st.Term]; ok {
					return fmt.Sprintf("two-leaders-in-one-term region=%d", r),
						fmt.Sprintf("peers %d and %d are both leader of term %d\n%s", other, id, st.Term, c.describeCalls())
				}
				leaders[st.Term] = id
			}
		}
	}
	// committed prefixes of the replicas' raft logs agree: the same entry at the same index
	// up to the smaller applied index (this is "the same sequence of committed commands"
	// position by position, also where one of the replicas holds a no-op)
	for r := 1; r <= c.sc.Regions; r++ {
		type plog struct {
			id      uint64
			applied uint64
			ents    map[uint64]string
		}
		var logs []plog
		for _, id := range c.pids {
			if regionOf(id) != r {
				continue
			}
			ents, _, err := c.peers[id].VerifLog()
			if err != nil {
				continue
			}
			pl := plog{id: id, applied: c.peers[id].Status().Applied, ents: map[uint64]string{}}
			for _, e := range ents {
				pl.ents[e.Index] = fmt.Sprintf("term%d:%s", e.Term, strings.Join(entryCmdTags(e), ","))
			}
			logs = append(logs, pl)
		}
		for i := 0; i < len(logs); i++ {
			for j := i + 1; j < len(logs); j++ {
				a, b := logs[i], logs[j]
				for idx := uint64(1); idx <= min(a.applied, b.applied); idx++ {
					ea, oka := a.ents[idx]
					eb, okb := b.ents[idx]
					if oka && okb && ea != eb {
						return fmt.Sprintf("committed-log-divergence region=%d", r),
							fmt.Sprintf("peers %d and %d have both applied index %d but hold different entries there (%s vs %s)\n%s", a.id, b.id, idx, ea, eb, c.describeCalls())
					}
				}
			}
		}
	}
	// identical sequences
	for r := 1; r <= c.sc.Regions; r++ {
		var lists [NumStores + 1][]appliedRec
		longest := 1
		for s := 1; s <= NumStores; s++ {
			lists[s] = c.recs[s].list(r)
			if len(lists[s]) > len(lists[longest]) {
				longest = s
			}
			seen := map[string]bool{}
			for _, a := range lists[s] {
				if seen[a.Tag] {
					return fmt.Sprintf("applied-twice region=%d", r), fmt.Sprintf("store %d applied command %s twice\n%s", s, a.Tag, c.describeCalls())
				}
				seen[a.Tag] = true
			}
		}
		for s := 1; s <= NumStores; s++ {
			for i, a := range lists[s] {
				if lists[longest][i].Tag != a.Tag {
					return fmt.Sprintf("divergent-apply region=%d", r), fmt.Sprintf("stores %d and %d applied different commands at position %d\n%s", s, longest, i, c.describeCalls())
				}
			}
		}
	}
	// every replica has applied exactly the commands of its own committed log up to its applied index
	for _, id := range c.pids {
		p := c.peers[id]
		applied := p.Status().Applied
		ents, _, err := p.VerifLog()
		if err != nil {
			continue
		}
		var want []string
		for _, e := range ents {
			if e.Index <= applied {
				want = append(want, entryCmdTags(e)...)
			}
		}
		var got []string
		for _, a := range c.recs[storeOf(id)].list(regionOf(id)) {
			got = append(got, a.Tag)
		}
		if strings.Join(want, ",") != strings.Join(got, ",") {
			return fmt.Sprintf("applied-differs-from-committed-log region=%d", regionOf(id)),
				fmt.Sprintf("peer %d reports applied index %d, its log holds commands [%s] up to there, but store %d applied [%s]\n%s", id, applied, strings.Join(want, ","), storeOf(id), strings.Join(got, ","), c.describeCalls())
		}
	}
	// success => applied exactly once, by the answering store
	for _, call := range c.calls {
		d, o, _, _ := call.snapshot()
		if !d || call.Spec.Kind != "w" || o != OutOK {
			continue
		}
		n := 0
		for _, a := range c.recs[call.Store].list(call.Spec.Region) {
			if a.Tag == call.Spec.Tag {
				n++
			}
		}
		if n != 1 {
			return fmt.Sprintf("acked-applied-%d-times", n), fmt.Sprintf("ProposeCommand for %s returned success but store %d applied it %d times\n%s", call.Spec.Tag, call.Store, n, c.describeCalls())
		}
	}
	return "", ""
}

type linOp struct {
	idx      int
	write    bool
	val      string // written tag / value read ("" = not found)
	definite bool   // acknowledged write or served read (has a return); else may take effect any time after its call, or never
	after    uint64 // calls that had returned before this one was issued
}

// linearizable decides by brute force whether the ops on one register have a linearization.
func linearizable(ops []linOp) bool {
	n := len(ops)
	var definiteMask uint64
	for _, o := range ops {
		if o.definite {
			definiteMask |= 1 << uint(o.idx)
		}
	}
	var rec func(done uint64, used int, cur string) bool
	rec = func(done uint64, used int, cur string) bool {
		all := true
		for _, o := range ops {
			if o.definite && done&(1<<uint(o.idx)) == 0 {
				all = false
				break
			}
		}
		if all {
			return true
		}
		if used == n {
			return false
		}
		for _, o := range ops {
			bit := uint64(1) << uint(o.idx)
			if done&bit != 0 {
				continue
			}
			// every definite op that returned before o was issued must be linearized already
			if (o.after&definiteMask)&^done != 0 {
				continue
			}
			if o.write {
				if rec(done|bit, used+1, o.val) {
					return true
				}
			} else if o.val == cur {
				if rec(done|bit, used+1, cur) {
					return true
				}
			}
		}
		return false
	}
	return rec(0, 0, "")
}

// OracleC23: a store whose own raft role for the region is not leader when the call arrives
// never serves it; the call/return history per key is linearizable.
func OracleC23(c *Cluster) (string, string) {
	misrouted := false
	for _, call := range c.calls {
		d, o, e, _ := call.snapshot()
		if !d || o != OutOK {
			continue
		}
		if call.Role != "StateLeader" {
			return fmt.Sprintf("non-leader-served op=%s role=%s", call.Spec.Kind, call.Role),
				fmt.Sprintf("store %d knew it was %s for region %d but served %s instead of NotLeader\n%s", call.Store, call.Role, call.Spec.Region, call.Spec.Kind, c.describeCalls())
		}
		if call.Spec.Kind == "w" && e != echoOf(call.Spec.Tag) {
			misrouted = true
		}
	}
	keys := map[string]bool{}
	for _, call := range c.calls {
		keys[call.Spec.Key] = true
	}
	ks := make([]string, 0, len(keys))
	for k := range keys {
		ks = append(ks, k)
	}
	sort.Strings(ks)
	for _, k := range ks {
		var ops []linOp
		var shape []string
		issue, ret := map[int]int{}, map[int]int{}
		for _, call := range c.calls {
			if call.Spec.Key != k {
				continue
			}
			d, o, e, rs := call.snapshot()
			issue[call.Op], ret[call.Op] = call.IssueStep, rs
			switch call.Spec.Kind {
			case "w":
				if d && (o == OutNotLeader || o == OutEpoch) {
					continue // rejected before it was proposed
				}
				def := d && o == OutOK
				ops = append(ops, linOp{idx: call.Op, write: true, val: call.Spec.Tag, definite: def, after: call.DoneAt})
				st := "maybe"
				if def {
					st = "acked"
				}
				shape = append(shape, fmt.Sprintf("op%d:w(%s):%s:after%s", call.Op, call.Spec.Tag, st, maskString(call.DoneAt)))
			case "r":
				if !d || o != OutOK {
					continue
				}
				v := e
				if v == "<notfound>" {
					v = ""
				}
				ops = append(ops, linOp{idx: call.Op, val: v, definite: true, after: call.DoneAt})
				shape = append(shape, fmt.Sprintf("op%d:r=%s:after%s", call.Op, e, maskString(call.DoneAt)))
			}
		}
		lin := linearizable(ops)
		if len(ops) > 0 {
			PorcupineChecks++
			if pl := porcupineLinearizable(ops, issue, ret); pl != lin {
				panic(fmt.Sprintf("clustermc: linearizability checkers disagree (brute force %v, porcupine %v) on %s", lin, pl, strings.Join(shape, "|")))
			}
		}
		if !lin {
			pre := "non-linearizable"
			if misrouted {
				pre = "non-linearizable(after-misrouted-ack)"
			}
			return fmt.Sprintf("%s key=%s history=%s", pre, k, strings.Join(shape, "|")),
				fmt.Sprintf("no linearization of the calls on key %s exists\n%s", k, c.describeCalls())
		}
	}
	return "", ""
}

func maskString(m uint64) string {
	var s []string
	for i := 0; i < 64; i++ {
		if m&(1<<uint(i)) != 0 {
			s = append(s, fmt.Sprint(i))
		}
	}
	return "{" + strings.Join(s, ",") + "}"
}
