//go:build verif

// Package dbsched runs a real NoKV.DB under the vsched controlled scheduler: the root
// package (and utils/ringbuffer.go, utils/watermarker.go) are instrumented, thread 0
// opens the DB (exploration switched off), starts the client threads, switches
// exploration on, waits for them and closes the DB. The commit worker is a controlled
// thread (its `go` statement is rewritten), so "commit applied" is a scheduled step.
package dbsched

import (
	"fmt"
	"os"
	"path/filepath"
	"sync/atomic"

	NoKV "github.com/feichai0017/NoKV"

	"verif/lib/dbh"
	"verif/lib/schedmc"
	vsync "verif/shim/vsync"
	"verif/shim/vsched"
)

// Instr is the vinstr configuration every dbsched-based check registers in checks.json.
const Instr = `{"pkgs":["."],"files":{"db_write.go":{"chans":true,"sleep":true},"db.go":{"go":["commitWorker"]},"utils/ringbuffer.go":{"sleep":true},"utils/watermarker.go":{"chans":true}}}`

type Scenario struct {
	Name string
	Cfg  dbh.Config
	// Prepare runs on thread 0 after Open with exploration off (pre-populate data).
	Prepare func(db *NoKV.DB)
	// Clients are the concurrently explored bodies.
	Clients []func(db *NoKV.DB)
	// CloseConcurrently: thread 0 calls Close while clients may still run (C37);
	// otherwise it waits for all clients first.
	CloseConcurrently bool
	// AfterClients runs on thread 0 after the clients finished, exploration off, DB still open.
	AfterClients func(db *NoKV.DB)
	// Closed is set (by thread 0) once Close has returned. A Scenario value is per execution.
	Closed bool
	// H is the harness handle of the opened DB (maintenance transitions), set before Prepare runs.
	H *dbh.H
}

var dirSeq atomic.Int64

// Exec builds a schedmc.Exec for one fresh DB.
func Exec(sc *Scenario, base string, monitor func() (string, string), final func(res vsched.Result, closeErr error) (string, string), outcome func() string) *schedmc.Exec {
	dir := filepath.Join(base, fmt.Sprintf("db%d", dirSeq.Add(1)%16))
	_ = os.RemoveAll(dir)
	_ = os.MkdirAll(dir, 0o755)
	var h *dbh.H
	var closeErr error
	closed := false
	main := func() {
		var err error
		h, err = dbh.Open(dir, sc.Cfg)
		if err != nil {
			panic(fmt.Sprintf("open: %v", err))
		}
		db := h.DB
		sc.H = h
		if sc.Prepare != nil {
			sc.Prepare(db)
		}
		var wg vsync.WaitGroup
		for _, c := range sc.Clients {
			wg.Add(1)
			vsched.Go(func() {
				defer wg.Done()
				c(db)
			})
		}
		vsched.SetExplore(true)
		if !sc.CloseConcurrently {
			wg.Wait()
			vsched.SetExplore(false)
			if sc.AfterClients != nil {
				sc.AfterClients(db)
			}
		}
		closeErr = h.Close()
		closed = true
		sc.Closed = true
		if sc.CloseConcurrently {
			wg.Wait()
			vsched.SetExplore(false)
		}
	}
	return &schedmc.Exec{
		Threads: []func(){main},
		Monitor: monitor,
		Final: func(res vsched.Result) (string, string) {
			if !closed && !res.Deadlock && !res.Livelock && res.Panic == nil {
				return "close-not-finished", "thread 0 did not finish Close"
			}
			if final != nil {
				return final(res, closeErr)
			}
			return "", ""
		},
		Outcome: outcome,
		Cleanup: func() {
			if !closed && h != nil && h.DB != nil {
				// aborted execution (violation): the instance may be poisoned; leave it, but free the dir name
				go func() { defer func() { _ = recover() }(); _ = h.Close() }()
			}
			_ = os.RemoveAll(dir)
		},
	}
}
