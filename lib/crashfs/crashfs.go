// Package crashfs is the shared PROCESS-crash exploration layer (DESIGN 2.2 "crashmc").
//
// # Crash model
//
// A process crash (kill -9) keeps everything the kernel already has — completed write(2)s,
// renames, removes, truncates, MAP_SHARED stores — and loses every user-space buffer (bufio
// writers inside wal.Manager, the manifest rewrite buffer, ...). Because the components under
// test do all their file I/O through a vfs.FS, the crash image at an instant is simply *the
// directory tree as the OS sees it at that instant*. fsync never changes a process-crash image.
//
// # What this package does
//
// FS is a vfs.FS over the real OS filesystem. Pass it in the component's FS field
// (NoKV.Options.FS, wal.Config.FS, manifest.Open(dir, fs), ...). Every MUTATING call that
// touches a path under Root is a numbered crash point:
//
//	create (OpenFileHandle with O_CREATE on a missing file, or O_TRUNC), write, writeat,
//	truncate (handle or path), rename, remove, removeall, writefile, mkdir, sync, close
//	(the last two only on handles opened for writing), and mark (harness-made, see Mark).
//
// Read-only calls (OpenHandle, Stat, ReadDir, ReadFile, Glob, reads/seeks) and Sync/Close of
// read-only handles — in particular the asynchronous vfs.SyncDir goroutine spawned when an mmap
// file is created — are NOT numbered, which keeps the numbering of a deterministic history
// deterministic (compare Trace() of two runs).
//
// While recording (between Start and Stop) the tree under Root is captured as an in-memory
// Image after every numbered call (phase "after"), optionally also before it (Options.Before;
// only needed when something other than vfs calls changes files between two calls, e.g. mmap
// stores — in a purely vfs-driven history "before k" == "after k-1"), and for write / writeat /
// writefile calls additional TORN images are synthesized (Options.Torn): the before-image with
// only the first n bytes of the buffer applied, n ∈ {1, len/2, len-1} (plus 0 for writefile:
// file created/truncated but empty). Images are content-interned, so thousands of points of a
// small directory cost little memory; Point.Image.Hash identifies equal trees.
//
// # Typical use
//
//	fs := crashfs.New(dir, crashfs.Options{Torn: true})
//	m, _ := manifest.Open(dir, fs)            // set-up, not recorded
//	fs.Start()                                // point 0 = initial image
//	for i, e := range edits { fs.SetLabel(strconv.Itoa(i)); m.LogEdit(e); fs.Mark("done") }
//	pts := fs.Stop()
//	for _, p := range pts {                   // or crashfs.Distinct(pts)
//	    d := filepath.Join(scratch, "img"); p.Image.Materialize(d)
//	    ... reopen d with the real recovery code on the plain OS fs (recover() from panics) ...
//	    os.RemoveAll(d)
//	}
//
// SetLabel tags the points that follow (e.g. with the index of the running operation) so the
// oracle knows what had completed before a point. Mark(name) records a harness-defined point
// with an image (use it from verifhook handlers for steps that are invisible to the vfs: mmap
// stores, in-memory hand-offs, "acknowledged"/"messages sent" instants). OnPoint, if set, is
// called synchronously for every recorded point (a literal-crash cross-check can os.Exit there).
//
// # Limits
//
// Calls made directly on the unwrapped *os.File (file.MmapFile truncates/syncs its *os.File,
// flock) are invisible; place Mark calls at the corresponding named hook points. Images are
// taken under the FS lock, so a history whose background goroutines are serialized by the
// harness yields exact kill -9 images; free-running writers would make an image a non-atomic
// copy. Only regular files and directories under Root are captured.
package crashfs

import (
	"crypto/sha1"
	"encoding/hex"
	"fmt"
	"io"
	"os"
	"path/filepath"
	"sort"
	"strings"
	"sync"

	"github.com/feichai0017/NoKV/vfs"
)

// Options configures recording.
type Options struct {
	Torn     bool                  // synthesize torn variants of write/writeat/writefile
	Before   bool                  // also take an image before every numbered call
	NoImages bool                  // number and trace only (determinism / literal-kill runs)
	Skip     func(rel string) bool // files (relative path) left out of images, e.g. "LOCK"
	TornCuts func(n int) []int     // override the torn prefix lengths for a buffer of n bytes
}

// Point is one recorded crash point.
type Point struct {
	Seq   int    // number of the mutating call (1-based; 0 = image taken by Start)
	Op    string // create write writeat truncate rename remove removeall writefile mkdir sync close mark start
	Path  string // relative to Root ("" for mark/start)
	Path2 string // rename target
	Off   int64  // write offset
	Len   int    // write length
	Phase string // after | before | torn
	Cut   int    // torn: number of bytes of the buffer that reached the file
	Label string // label current when the call was made
	Name  string // mark name
	Err   bool   // the call returned an error
	Image *Image
	Meta  any // free for the harness (set from OnPoint)
}

// String is a human-readable description (contains the point number).
func (p Point) String() string {
	s := fmt.Sprintf("#%d %s", p.Seq, p.Class())
	if p.Op == "write" || p.Op == "writeat" || p.Op == "writefile" {
		s += fmt.Sprintf("(off=%d,len=%d)", p.Off, p.Len)
	}
	if p.Phase == "torn" {
		s += fmt.Sprintf("@%d", p.Cut)
	}
	if p.Label != "" {
		s += " [" + p.Label + "]"
	}
	return s
}

// Class is a stable classification without counters: "write:*.wal/torn", "rename:CURRENT.tmp->CURRENT/after", "mark:sent/after".
func (p Point) Class() string {
	switch p.Op {
	case "mark":
		return "mark:" + p.Name + "/" + p.Phase
	case "start":
		return "start"
	case "rename":
		return "rename:" + Generic(p.Path) + "->" + Generic(p.Path2) + "/" + p.Phase
	}
	return p.Op + ":" + Generic(p.Path) + "/" + p.Phase
}

// Generic replaces numeric file stems by '*' ("00003.wal" -> "*.wal", "MANIFEST-000002" -> "MANIFEST-*").
func Generic(rel string) string {
	parts := strings.Split(rel, string(filepath.Separator))
	for i, s := range parts {
		b := []byte(s)
		out := make([]byte, 0, len(b))
		for j := 0; j < len(b); {
			if b[j] >= '0' && b[j] <= '9' {
				k := j
				for k < len(b) && b[k] >= '0' && b[k] <= '9' {
					k++
				}
				out = append(out, '*')
				j = k
				continue
			}
			out = append(out, b[j])
			j++
		}
		parts[i] = string(out)
	}
	return strings.Join(parts, "/")
}

// Image is an immutable in-memory copy of a directory tree.
type Image struct {
	Files map[string][]byte // relative path -> content (shared, never modify in place)
	Dirs  []string          // relative directories, sorted
	Hash  string            // content hash of the whole tree
}

// With returns a copy of the image with file rel set to data (data==nil removes it).
func (im *Image) With(rel string, data []byte) *Image {
	n := &Image{Files: make(map[string][]byte, len(im.Files)+1), Dirs: im.Dirs}
	for k, v := range im.Files {
		n.Files[k] = v
	}
	if data == nil {
		delete(n.Files, rel)
	} else {
		n.Files[rel] = data
	}
	n.rehash()
	return n
}

// Names returns the sorted relative file names.
func (im *Image) Names() []string {
	out := make([]string, 0, len(im.Files))
	for k := range im.Files {
		out = append(out, k)
	}
	sort.Strings(out)
	return out
}

func (im *Image) rehash() {
	h := sha1.New()
	for _, d := range im.Dirs {
		fmt.Fprintf(h, "d %s\n", d)
	}
	for _, k := range im.Names() {
		fmt.Fprintf(h, "f %s %d\n", k, len(im.Files[k]))
		_, _ = h.Write(im.Files[k])
	}
	im.Hash = hex.EncodeToString(h.Sum(nil)[:10])
}

// Materialize writes the tree into dir (created; should not exist or be empty).
func (im *Image) Materialize(dir string) error {
	if err := os.MkdirAll(dir, 0o755); err != nil {
		return err
	}
	for _, d := range im.Dirs {
		if err := os.MkdirAll(filepath.Join(dir, d), 0o755); err != nil {
			return err
		}
	}
	for k, v := range im.Files {
		if err := os.WriteFile(filepath.Join(dir, k), v, 0o644); err != nil {
			return err
		}
	}
	return nil
}

// Describe lists files and sizes ("00001.wal:25 CURRENT:15 ...").
func (im *Image) Describe() string {
	var sb strings.Builder
	for i, k := range im.Names() {
		if i > 0 {
			sb.WriteByte(' ')
		}
		fmt.Fprintf(&sb, "%s:%d", k, len(im.Files[k]))
	}
	return sb.String()
}

// Capture reads the tree under dir into an Image (stand-alone helper, no interning).
func Capture(dir string, skip func(rel string) bool) (*Image, error) {
	im := &Image{Files: map[string][]byte{}}
	err := filepath.Walk(dir, func(p string, info os.FileInfo, err error) error {
		if err != nil {
			if os.IsNotExist(err) {
				return nil
			}
			return err
		}
		rel, _ := filepath.Rel(dir, p)
		if rel == "." {
			return nil
		}
		if info.IsDir() {
			im.Dirs = append(im.Dirs, rel)
			return nil
		}
		if !info.Mode().IsRegular() || (skip != nil && skip(rel)) {
			return nil
		}
		data, err := os.ReadFile(p)
		if err != nil {
			if os.IsNotExist(err) {
				return nil
			}
			return err
		}
		im.Files[rel] = data
		return nil
	})
	if err != nil {
		return nil, err
	}
	sort.Strings(im.Dirs)
	im.rehash()
	return im, nil
}

// Distinct keeps the first point of every distinct image (by tree hash), preserving order.
func Distinct(pts []Point) []Point {
	seen := map[string]bool{}
	var out []Point
	for _, p := range pts {
		if p.Image == nil || seen[p.Image.Hash] {
			continue
		}
		seen[p.Image.Hash] = true
		out = append(out, p)
	}
	return out
}

// FS is the recording vfs.FS. The zero value is not usable; call New.
type FS struct {
	Root    string
	Opt     Options
	OnPoint func(p *Point) // called synchronously (FS lock held) for every recorded point

	base      vfs.OSFS
	mu        sync.Mutex
	recording bool
	seq       int
	label     string
	points    []Point
	trace     []string
	blobs     map[[20]byte][]byte
	last      *Image
}

// New returns a recording FS for the tree rooted at root. Recording starts with Start.
func New(root string, opt Options) *FS {
	return &FS{Root: filepath.Clean(root), Opt: opt, blobs: map[[20]byte][]byte{}}
}

// Start begins numbering and recording; point 0 ("start") holds the initial image.
func (f *FS) Start() {
	f.mu.Lock()
	defer f.mu.Unlock()
	f.recording = true
	f.seq = 0
	f.points = nil
	f.trace = nil
	f.record(Point{Seq: 0, Op: "start", Phase: "after"}, true)
}

// Stop ends recording and returns the points in order of occurrence.
func (f *FS) Stop() []Point {
	f.mu.Lock()
	defer f.mu.Unlock()
	f.recording = false
	out := f.points
	f.points = nil
	return out
}

// Points returns the points recorded so far (recording continues).
func (f *FS) Points() []Point {
	f.mu.Lock()
	defer f.mu.Unlock()
	return append([]Point(nil), f.points...)
}

// Seq returns the number of the last numbered call.
func (f *FS) Seq() int { f.mu.Lock(); defer f.mu.Unlock(); return f.seq }

// SetLabel tags all following points.
func (f *FS) SetLabel(l string) { f.mu.Lock(); f.label = l; f.mu.Unlock() }

// Trace returns one line per numbered call ("3 write 00001.wal 25"), for determinism checks.
func (f *FS) Trace() []string {
	f.mu.Lock()
	defer f.mu.Unlock()
	return append([]string(nil), f.trace...)
}

// Mark records a harness-defined numbered point with an image of the current tree.
func (f *FS) Mark(name string) {
	f.mu.Lock()
	defer f.mu.Unlock()
	if !f.recording {
		return
	}
	f.seq++
	f.trace = append(f.trace, fmt.Sprintf("%d mark %s", f.seq, name))
	f.record(Point{Seq: f.seq, Op: "mark", Name: name, Phase: "after"}, true)
}

// Snapshot captures the current tree without recording a point.
func (f *FS) Snapshot() *Image {
	f.mu.Lock()
	defer f.mu.Unlock()
	return f.capture()
}

func (f *FS) rel(p string) (string, bool) {
	p = filepath.Clean(p)
	if p == f.Root {
		return ".", true
	}
	if strings.HasPrefix(p, f.Root+string(filepath.Separator)) {
		return p[len(f.Root)+1:], true
	}
	return "", false
}

func (f *FS) capture() *Image {
	im := &Image{Files: map[string][]byte{}}
	_ = filepath.Walk(f.Root, func(p string, info os.FileInfo, err error) error {
		if err != nil {
			return nil
		}
		rel, _ := filepath.Rel(f.Root, p)
		if rel == "." {
			return nil
		}
		if info.IsDir() {
			im.Dirs = append(im.Dirs, rel)
			return nil
		}
		if !info.Mode().IsRegular() || (f.Opt.Skip != nil && f.Opt.Skip(rel)) {
			return nil
		}
		data, err := os.ReadFile(p)
		if err != nil {
			return nil
		}
		im.Files[rel] = f.intern(data)
		return nil
	})
	sort.Strings(im.Dirs)
	im.rehash()
	if f.last != nil && f.last.Hash == im.Hash {
		return f.last
	}
	f.last = im
	return im
}

func (f *FS) intern(data []byte) []byte {
	k := sha1.Sum(data)
	if b, ok := f.blobs[k]; ok {
		return b
	}
	f.blobs[k] = data
	return data
}

// record appends a point (lock held); takeImage=false when the caller supplies p.Image.
func (f *FS) record(p Point, takeImage bool) {
	p.Label = f.label
	if takeImage && !f.Opt.NoImages {
		p.Image = f.capture()
	}
	f.points = append(f.points, p)
	if f.OnPoint != nil {
		f.OnPoint(&f.points[len(f.points)-1])
	}
}

// call wraps one mutating call on a path under Root: numbers it, runs it, records images.
// pre (optional) returns the torn images to synthesize given the before-image of the file.
func (f *FS) call(op, path, path2 string, off int64, buf []byte, tornable bool, run func() error) error {
	rel, ok := f.rel(path)
	if !ok {
		return run()
	}
	f.mu.Lock()
	defer f.mu.Unlock()
	if !f.recording {
		return run()
	}
	f.seq++
	p := Point{Seq: f.seq, Op: op, Path: rel, Off: off, Len: len(buf)}
	if path2 != "" {
		p.Path2, _ = f.rel(path2)
	}
	f.trace = append(f.trace, fmt.Sprintf("%d %s %s %s %d", p.Seq, op, rel, p.Path2, len(buf)))
	var before []byte
	var hadFile bool
	torn := tornable && f.Opt.Torn && !f.Opt.NoImages && len(buf) > 0
	if torn {
		if data, err := os.ReadFile(path); err == nil {
			before, hadFile = data, true
		}
	}
	if f.Opt.Before {
		bp := p
		bp.Phase = "before"
		f.record(bp, true)
	}
	err := run()
	p.Err = err != nil
	ap := p
	ap.Phase = "after"
	if torn && err == nil {
		// the torn images are placed before the "after" image, in increasing cut order
		var img *Image
		if f.Opt.NoImages {
			img = nil
		} else {
			img = f.capture()
		}
		for _, n := range f.cuts(op, len(buf)) {
			var content []byte
			if op == "writefile" {
				content = append([]byte(nil), buf[:n]...)
			} else {
				end := off + int64(n)
				size := int64(len(before))
				if end > size {
					size = end
				}
				content = make([]byte, size)
				copy(content, before)
				copy(content[off:], buf[:n])
			}
			_ = hadFile
			tp := p
			tp.Phase = "torn"
			tp.Cut = n
			tp.Image = img.With(rel, f.intern(content))
			f.record(tp, false)
		}
		ap.Image = img
		f.record(ap, false)
		return err
	}
	f.record(ap, true)
	return err
}

func (f *FS) cuts(op string, n int) []int {
	if f.Opt.TornCuts != nil {
		return f.Opt.TornCuts(n)
	}
	var c []int
	if op == "writefile" {
		c = append(c, 0)
	}
	for _, k := range []int{1, n / 2, n - 1} {
		if k > 0 && k < n && (len(c) == 0 || c[len(c)-1] < k) {
			c = append(c, k)
		}
	}
	return c
}

// ---- vfs.FS ----

func writable(flag int) bool {
	return flag&(os.O_WRONLY|os.O_RDWR|os.O_CREATE|os.O_TRUNC|os.O_APPEND) != 0
}

// OpenHandle opens read-only: never a crash point, the handle's Sync/Close are not numbered.
func (f *FS) OpenHandle(name string) (vfs.File, error) { return f.base.OpenHandle(name) }

// OpenFileHandle is a "create" point when it creates or truncates the file.
func (f *FS) OpenFileHandle(name string, flag int, perm os.FileMode) (vfs.File, error) {
	if !writable(flag) {
		return f.base.OpenFileHandle(name, flag, perm)
	}
	_, under := f.rel(name)
	if !under {
		return f.base.OpenFileHandle(name, flag, perm)
	}
	mutates := false
	if flag&(os.O_CREATE|os.O_TRUNC) != 0 {
		st, err := os.Stat(name)
		switch {
		case err != nil:
			mutates = flag&os.O_CREATE != 0
		case flag&os.O_TRUNC != 0 && st.Size() > 0:
			mutates = true
		}
	}
	var h vfs.File
	open := func() error {
		var err error
		h, err = f.base.OpenFileHandle(name, flag, perm)
		return err
	}
	var err error
	if mutates {
		err = f.call("create", name, "", 0, nil, false, open)
	} else {
		err = open()
	}
	if err != nil {
		return nil, err
	}
	of, _ := h.(*os.File)
	return &file{fs: f, f: of, path: name, appendMode: flag&os.O_APPEND != 0}, nil
}

func (f *FS) MkdirAll(path string, perm os.FileMode) error {
	if _, err := os.Stat(path); err == nil {
		return nil // nothing changes: not a point
	}
	return f.call("mkdir", path, "", 0, nil, false, func() error { return f.base.MkdirAll(path, perm) })
}

func (f *FS) RemoveAll(path string) error {
	return f.call("removeall", path, "", 0, nil, false, func() error { return f.base.RemoveAll(path) })
}

func (f *FS) Remove(name string) error {
	return f.call("remove", name, "", 0, nil, false, func() error { return f.base.Remove(name) })
}

func (f *FS) Rename(oldPath, newPath string) error {
	return f.call("rename", oldPath, newPath, 0, nil, false, func() error { return f.base.Rename(oldPath, newPath) })
}

func (f *FS) Stat(name string) (os.FileInfo, error)      { return f.base.Stat(name) }
func (f *FS) ReadDir(name string) ([]os.DirEntry, error) { return f.base.ReadDir(name) }
func (f *FS) ReadFile(name string) ([]byte, error)       { return f.base.ReadFile(name) }
func (f *FS) Glob(pattern string) ([]string, error)      { return f.base.Glob(pattern) }
func (f *FS) Hostname() (string, error)                  { return "verif", nil }

func (f *FS) WriteFile(name string, data []byte, perm os.FileMode) error {
	return f.call("writefile", name, "", 0, data, true, func() error { return f.base.WriteFile(name, data, perm) })
}

func (f *FS) Truncate(name string, size int64) error {
	return f.call("truncate", name, "", size, nil, false, func() error { return f.base.Truncate(name, size) })
}

// ---- vfs.File ----

type file struct {
	fs         *FS
	f          *os.File
	path       string
	appendMode bool
}

// OSFile exposes the descriptor (mmap, flock) — see vfs.UnwrapOSFile.
func (h *file) OSFile() *os.File { return h.f }
func (h *file) Fd() uintptr      { return h.f.Fd() }

func (h *file) Read(p []byte) (int, error)                { return h.f.Read(p) }
func (h *file) ReadAt(p []byte, off int64) (int, error)   { return h.f.ReadAt(p, off) }
func (h *file) Seek(off int64, whence int) (int64, error) { return h.f.Seek(off, whence) }
func (h *file) Stat() (os.FileInfo, error)                { return h.f.Stat() }
func (h *file) Name() string                              { return h.f.Name() }

func (h *file) Write(p []byte) (n int, err error) {
	var off int64
	if h.appendMode {
		if st, e := h.f.Stat(); e == nil {
			off = st.Size()
		}
	} else {
		off, _ = h.f.Seek(0, io.SeekCurrent)
	}
	err = h.fs.call("write", h.path, "", off, p, true, func() error {
		var e error
		n, e = h.f.Write(p)
		return e
	})
	return n, err
}

func (h *file) WriteAt(p []byte, off int64) (n int, err error) {
	err = h.fs.call("writeat", h.path, "", off, p, true, func() error {
		var e error
		n, e = h.f.WriteAt(p, off)
		return e
	})
	return n, err
}

func (h *file) Sync() error {
	return h.fs.call("sync", h.path, "", 0, nil, false, func() error { return h.f.Sync() })
}

func (h *file) Truncate(size int64) error {
	return h.fs.call("truncate", h.path, "", size, nil, false, func() error { return h.f.Truncate(size) })
}

func (h *file) Close() error {
	return h.fs.call("close", h.path, "", 0, nil, false, func() error { return h.f.Close() })
}
