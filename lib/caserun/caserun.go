// Package caserun executes an indexed list of cases in a crash-tolerant child process.
//
// Some inputs make the code under test die in ways Go cannot recover from (fatal error: out
// of memory, stack exhaustion, a panic on a background goroutine). The enum checks (C16, C14)
// must survive those, attribute the death to the exact case, and carry on with the next one.
//
// Run re-executes the current binary (optionally under `ulimit -v`), the child walks the
// cases of its shard, writes the index of the case in flight to a progress file before it
// starts it and checkpoints its vr.Partial regularly. When the child dies the parent reads
// the progress file, reports the case through Config.Crash, adds it to the skip list and
// restarts the child from the last checkpoint.
package caserun

import (
	"bufio"
	"encoding/binary"
	"encoding/gob"
	"fmt"
	"os"
	"os/exec"
	"path/filepath"
	"regexp"
	"strconv"
	"strings"
	"sync/atomic"
	"syscall"
	"time"

	"verif/lib/vr"
)

type Config struct {
	Name        string                                          // unique per check
	N           int                                             // cases are 0..N-1
	Only        []int                                           // if non-nil: run just these indices (replay)
	Run         func(i int, p *vr.Partial)                      // child side: execute case i
	Crash       func(i int, kind, detail string, p *vr.Partial) // parent side: case i killed the child; kind = oom | fatal | panic | timeout | signal
	MemLimitKB  int                                             // ulimit -v for the child (0 = unlimited)
	CaseTimeout time.Duration                                   // watchdog per case (0 = 120 s); harness protection, not an oracle
}

type ckpt struct {
	Next int
	P    *vr.Partial
}

const envName = "VERIF_CASERUN"

// OnChildExit, if set, runs in the child just before it exits normally (profiling hooks).
var OnChildExit func()

// Dir returns a work directory for the cases of this child (inside the parent's scratch, which
// the parent removes); in a non-child process it returns r.Scratch().
func Dir(r *vr.Run) string {
	if d := os.Getenv("CASERUN_DIR"); d != "" {
		return d
	}
	return r.Scratch()
}

// InChild reports whether this process is a caserun child (of any runner).
func InChild() bool { return os.Getenv(envName) != "" }

// Run executes the cases owned by shard sh and merges the results into p.
func Run(r *vr.Run, sh vr.ShardInfo, p *vr.Partial, c Config) {
	if c.CaseTimeout <= 0 {
		c.CaseTimeout = 120 * time.Second
	}
	if who := os.Getenv(envName); who != "" {
		if who != c.Name {
			return // child of another runner in the same check
		}
		child(r, sh, c)
		if OnChildExit != nil {
			OnChildExit()
		}
		os.Exit(0)
	}
	dir := filepath.Join(r.Scratch(), fmt.Sprintf("caserun-%s-%d", c.Name, sh.Index))
	if err := os.MkdirAll(dir, 0o755); err != nil {
		vr.Fatalf("caserun: %v", err)
	}
	progress := filepath.Join(dir, "progress")
	out := filepath.Join(dir, "ckpt.gob")
	skipFile := filepath.Join(dir, "skip")
	errFile := filepath.Join(dir, "stderr")
	_ = os.WriteFile(skipFile, nil, 0o644)
	_ = os.Remove(out)
	crashed := map[int]bool{}
	for restarts := 0; ; restarts++ {
		if restarts > 100000 {
			vr.Fatalf("caserun %s: too many restarts", c.Name)
		}
		// every process measures its budget from its own start: hand the child what is left of ours
		rem := r.Remaining()
		if rem <= 0 {
			p.TimedOut = true
			if f, err := os.Open(out); err == nil {
				var ck ckpt
				if err := gob.NewDecoder(f).Decode(&ck); err == nil && ck.P != nil {
					p.Merge(ck.P)
				}
				_ = f.Close()
			}
			return
		}
		_ = os.WriteFile(progress, make([]byte, 8), 0o644)
		ef, err := os.Create(errFile)
		if err != nil {
			vr.Fatalf("caserun: %v", err)
		}
		var args []string // our arguments without an explicit budget (the child gets the remaining budget through the environment)
		for i := 1; i < len(os.Args); i++ {
			a := strings.TrimLeft(os.Args[i], "-")
			if a == "budget" {
				i++
				continue
			}
			if strings.HasPrefix(a, "budget=") {
				continue
			}
			args = append(args, os.Args[i])
		}
		var cmd *exec.Cmd
		if c.MemLimitKB > 0 {
			script := fmt.Sprintf("ulimit -v %d; exec \"$0\" \"$@\"", c.MemLimitKB)
			cmd = exec.Command("sh", append([]string{"-c", script, os.Args[0]}, args...)...)
		} else {
			cmd = exec.Command(os.Args[0], args...)
		}
		only := ""
		if c.Only != nil {
			var s []string
			for _, i := range c.Only {
				s = append(s, strconv.Itoa(i))
			}
			only = strings.Join(s, ",") + ","
		}
		cmd.Env = append(os.Environ(), envName+"="+c.Name, "CASERUN_PROGRESS="+progress, "CASERUN_OUT="+out, "CASERUN_SKIP="+skipFile,
			"CASERUN_ONLY="+only, "CASERUN_DIR="+dir, fmt.Sprintf("VERIF_SHARD=%d/%d", sh.Index, max(sh.Count, 1)), "VERIF_SHARD_OUT=/dev/null", "GOMAXPROCS=2", "GOTRACEBACK=single",
			fmt.Sprintf("VERIF_BUDGET_S=%d", max(1, int(rem.Seconds()))))
		cmd.Stdout = nil
		cmd.Stderr = ef
		t0 := time.Now()
		runErr := cmd.Run()
		if os.Getenv("CASERUN_DEBUG") != "" {
			pb, _ := os.ReadFile(progress)
			fmt.Fprintf(os.Stderr, "caserun[%s/%d] child #%d ran %s err=%v progress=%d\n", c.Name, sh.Index, restarts, time.Since(t0).Round(time.Millisecond), runErr, binary.LittleEndian.Uint64(append(pb, make([]byte, 8)...)))
		}
		_ = ef.Close()
		var ck ckpt
		haveCk := false
		if f, err := os.Open(out); err == nil {
			if err := gob.NewDecoder(f).Decode(&ck); err == nil && ck.P != nil {
				haveCk = true
			}
			_ = f.Close()
		}
		if runErr == nil {
			if !haveCk || ck.Next != c.N {
				vr.Fatalf("caserun %s: child exited 0 without a final checkpoint", c.Name)
			}
			p.Merge(ck.P)
			return
		}
		// the child died: which case?
		pb, _ := os.ReadFile(progress)
		if len(pb) < 8 {
			vr.Fatalf("caserun %s: child failed before the first case: %v\n%s", c.Name, runErr, tail(errFile, 2000))
		}
		v := binary.LittleEndian.Uint64(pb)
		if v == 0 {
			vr.Fatalf("caserun %s: child failed before the first case: %v\n%s", c.Name, runErr, tail(errFile, 2000))
		}
		i := int(v - 1)
		kind, detail := classify(runErr, tail(errFile, 6000))
		if kind == "harness" {
			vr.Fatalf("caserun %s: child reported a harness error at case %d:\n%s", c.Name, i, detail)
		}
		if crashed[i] {
			vr.Fatalf("caserun %s: case %d killed the child twice (skip list not honoured?)", c.Name, i)
		}
		crashed[i] = true
		p.Add("child_deaths", 1)
		c.Crash(i, kind, detail, p)
		sf, _ := os.OpenFile(skipFile, os.O_APPEND|os.O_WRONLY, 0o644)
		fmt.Fprintf(sf, "%d\n", i)
		_ = sf.Close()
		if !haveCk {
			_ = os.Remove(out)
		}
	}
}

var addrRe = regexp.MustCompile(`0x[0-9a-f]+|\b[0-9]{3,}\b`)

func classify(runErr error, errTail string) (kind, detail string) {
	first := ""
	sc := bufio.NewScanner(strings.NewReader(errTail))
	for sc.Scan() {
		l := sc.Text()
		if strings.HasPrefix(l, "HARNESS-ERROR:") {
			return "harness", errTail
		}
		if first == "" && (strings.HasPrefix(l, "fatal error:") || strings.HasPrefix(l, "panic:") || strings.HasPrefix(l, "runtime: out of memory") || strings.HasPrefix(l, "CASERUN-TIMEOUT")) {
			first = l
		}
	}
	switch {
	case strings.Contains(errTail, "out of memory"):
		kind = "oom"
	case strings.HasPrefix(first, "CASERUN-TIMEOUT"):
		kind = "timeout"
	case strings.HasPrefix(first, "panic:"):
		kind = "panic"
	case strings.HasPrefix(first, "fatal error:"):
		kind = "fatal"
	default:
		kind = "signal"
		if ee, ok := runErr.(*exec.ExitError); ok {
			if ws, ok := ee.Sys().(syscall.WaitStatus); ok && ws.Signaled() {
				first = "killed by " + ws.Signal().String()
			} else {
				first = ee.Error()
			}
		}
	}
	detail = addrRe.ReplaceAllString(first, "N")
	if m := frameRe.FindStringSubmatch(errTail); m != nil {
		detail += " in " + m[1]
	}
	return kind, detail
}

// first frame of the dying goroutine that belongs to the repository under test
var frameRe = regexp.MustCompile(`(?m)^github\.com/feichai0017/NoKV/([^\s(]+(?:\([^)]*\)\.[^\s(]+)?)\(`)

func tail(path string, n int) string {
	b, _ := os.ReadFile(path)
	if len(b) > 200000 {
		// keep head (the fatal line comes first) and tail
		b = append(append([]byte{}, b[:100000]...), b[len(b)-100000:]...)
	}
	_ = n
	return string(b)
}

func child(r *vr.Run, sh vr.ShardInfo, c Config) {
	timeout := c.CaseTimeout
	progress, err := os.OpenFile(os.Getenv("CASERUN_PROGRESS"), os.O_RDWR, 0o644)
	if err != nil {
		vr.Fatalf("caserun child: %v", err)
	}
	out := os.Getenv("CASERUN_OUT")
	skip := map[int]bool{}
	if b, err := os.ReadFile(os.Getenv("CASERUN_SKIP")); err == nil {
		for _, l := range strings.Fields(string(b)) {
			if n, err := strconv.Atoi(l); err == nil {
				skip[n] = true
			}
		}
	}
	var only map[int]bool
	if s := os.Getenv("CASERUN_ONLY"); s != "" {
		only = map[int]bool{}
		for _, l := range strings.Split(s, ",") {
			if n, err := strconv.Atoi(l); err == nil {
				only[n] = true
			}
		}
	}
	dbg := os.Getenv("CASERUN_DEBUG") != ""
	tStart := time.Now()
	p := vr.NewPartial()
	start := 0
	if f, err := os.Open(out); err == nil {
		var ck ckpt
		if err := gob.NewDecoder(f).Decode(&ck); err == nil && ck.P != nil {
			p, start = ck.P, ck.Next
			if p.Counters == nil {
				p.Counters = map[string]int64{}
			}
			if p.Sets == nil {
				p.Sets = map[string]map[uint64]struct{}{}
			}
		}
		_ = f.Close()
	}
	save := func(next int) {
		tmp := out + ".tmp"
		f, err := os.Create(tmp)
		if err != nil {
			vr.Fatalf("caserun child: %v", err)
		}
		if err := gob.NewEncoder(f).Encode(ckpt{Next: next, P: p}); err != nil {
			vr.Fatalf("caserun child: %v", err)
		}
		_ = f.Close()
		if err := os.Rename(tmp, out); err != nil {
			vr.Fatalf("caserun child: %v", err)
		}
	}
	// watchdog (harness protection only)
	var cur, since atomic.Int64
	go func() {
		for range time.Tick(500 * time.Millisecond) {
			if c := cur.Load(); c > 0 && time.Now().UnixNano()-since.Load() > int64(timeout) {
				fmt.Fprintf(os.Stderr, "CASERUN-TIMEOUT case %d exceeded %s\n", c-1, timeout)
				os.Exit(3)
			}
		}
	}()
	if dbg {
		fmt.Fprintf(os.Stderr, "caserun child: setup %s, resume at %d\n", time.Since(tStart).Round(time.Millisecond), start)
	}
	var buf [8]byte
	done := 0
	lastSave, interval := time.Now(), 50*time.Millisecond
	for i := start; i < c.N; i++ {
		if !sh.Owns(i) || skip[i] || (only != nil && !only[i]) {
			continue
		}
		if r.Expired() {
			p.TimedOut = true
			break
		}
		binary.LittleEndian.PutUint64(buf[:], uint64(i+1))
		if _, err := progress.WriteAt(buf[:], 0); err != nil {
			vr.Fatalf("caserun child: %v", err)
		}
		since.Store(time.Now().UnixNano())
		cur.Store(int64(i + 1))
		c.Run(i, p)
		done++
		// checkpoint by time (a death loses at most ~interval of work), never spending more than ~5% on it
		if now := time.Now(); now.Sub(lastSave) >= interval {
			save(i + 1)
			interval = max(50*time.Millisecond, 20*time.Since(now))
			lastSave = time.Now()
		}
	}
	cur.Store(0)
	save(c.N)
}
