// Package vsync mirrors the subset of package sync used by NoKV. Under an active
// vsched scheduler, calls made by controlled threads become scheduling points;
// all other callers go straight to the real primitive.
package vsync

import (
	"sync"
	"sync/atomic"
	"unsafe"

	"verif/shim/vsched"
)

type (
	Pool   = sync.Pool
	Map    = sync.Map
	Locker = sync.Locker
)

// ---------------------------------------------------------------- Mutex

type Mutex struct{ mu sync.Mutex }

func (m *Mutex) Lock() {
	if vsched.Point(vsched.KLock, uintptr(unsafe.Pointer(m)), func() bool {
		if m.mu.TryLock() {
			m.mu.Unlock()
			return true
		}
		return false
	}) {
		// enabled was just evaluated true and nothing else ran since
		if !m.mu.TryLock() {
			m.mu.Lock() // held by an uncontrolled goroutine: really wait
		}
		return
	}
	m.mu.Lock()
}

func (m *Mutex) TryLock() bool {
	vsched.Point(vsched.KLock, uintptr(unsafe.Pointer(m)), nil)
	return m.mu.TryLock()
}

func (m *Mutex) Unlock() {
	if vsched.Point(vsched.KUnlock, uintptr(unsafe.Pointer(m)), nil) && m.mu.TryLock() {
		// nobody holds it: the real Unlock would be an unrecoverable runtime fatal error;
		// turn it into an ordinary panic so the explorer reports the schedule.
		m.mu.Unlock()
		panic("sync: unlock of unlocked mutex")
	}
	m.mu.Unlock()
}

// ---------------------------------------------------------------- RWMutex

type RWMutex struct{ mu sync.RWMutex }

func (m *RWMutex) Lock() {
	if vsched.Point(vsched.KLock, uintptr(unsafe.Pointer(m)), func() bool {
		if m.mu.TryLock() {
			m.mu.Unlock()
			return true
		}
		return false
	}) {
		if !m.mu.TryLock() {
			m.mu.Lock()
		}
		return
	}
	m.mu.Lock()
}

func (m *RWMutex) Unlock() {
	vsched.Point(vsched.KUnlock, uintptr(unsafe.Pointer(m)), nil)
	m.mu.Unlock()
}

func (m *RWMutex) RLock() {
	if vsched.Point(vsched.KRLock, uintptr(unsafe.Pointer(m)), func() bool {
		if m.mu.TryRLock() {
			m.mu.RUnlock()
			return true
		}
		return false
	}) {
		if !m.mu.TryRLock() {
			m.mu.RLock()
		}
		return
	}
	m.mu.RLock()
}

func (m *RWMutex) RUnlock() {
	vsched.Point(vsched.KRUnlock, uintptr(unsafe.Pointer(m)), nil)
	m.mu.RUnlock()
}

func (m *RWMutex) TryLock() bool {
	vsched.Point(vsched.KLock, uintptr(unsafe.Pointer(m)), nil)
	return m.mu.TryLock()
}

func (m *RWMutex) TryRLock() bool {
	vsched.Point(vsched.KRLock, uintptr(unsafe.Pointer(m)), nil)
	return m.mu.TryRLock()
}

func (m *RWMutex) RLocker() sync.Locker { return (*rlocker)(m) }

type rlocker RWMutex

func (r *rlocker) Lock()   { (*RWMutex)(r).RLock() }
func (r *rlocker) Unlock() { (*RWMutex)(r).RUnlock() }

// ---------------------------------------------------------------- WaitGroup

type WaitGroup struct {
	n  atomic.Int64
	wg sync.WaitGroup
}

func (w *WaitGroup) Add(delta int) {
	vsched.Point(vsched.KWgAdd, uintptr(unsafe.Pointer(w)), nil)
	w.n.Add(int64(delta))
	w.wg.Add(delta)
}

func (w *WaitGroup) Done() { w.Add(-1) }

func (w *WaitGroup) Wait() {
	vsched.Point(vsched.KWgWait, uintptr(unsafe.Pointer(w)), func() bool { return w.n.Load() <= 0 })
	w.wg.Wait()
}

// Go mirrors sync.WaitGroup.Go (Go 1.25): the function runs in an uncontrolled goroutine.
func (w *WaitGroup) Go(f func()) {
	w.Add(1)
	go func() {
		defer w.Done()
		f()
	}()
}

// ---------------------------------------------------------------- Once

type Once struct {
	done atomic.Uint32
	m    Mutex
}

func (o *Once) Do(f func()) {
	vsched.Point(vsched.KAtomicLoad, uintptr(unsafe.Pointer(o)), nil)
	if o.done.Load() == 1 {
		return
	}
	o.m.Lock()
	defer o.m.Unlock()
	if o.done.Load() == 0 {
		defer o.done.Store(1)
		f()
	}
}

// ---------------------------------------------------------------- Cond

// Cond is a condition variable over a Locker. Controlled threads wait on a generation
// counter so that "blocked in Wait" is a scheduler fact.
type Cond struct {
	L    sync.Locker
	gen  atomic.Uint64
	real *sync.Cond
	once sync.Once
}

func NewCond(l sync.Locker) *Cond { return &Cond{L: l} }

func (c *Cond) init() { c.once.Do(func() { c.real = sync.NewCond(c.L) }) }

func (c *Cond) Wait() {
	c.init()
	if !vsched.Controlled() {
		c.real.Wait()
		return
	}
	g := c.gen.Load()
	c.L.Unlock()
	vsched.Point(vsched.KCondWait, uintptr(unsafe.Pointer(c)), func() bool { return c.gen.Load() != g })
	c.L.Lock()
}

func (c *Cond) Signal() {
	c.init()
	vsched.Point(vsched.KCondSignal, uintptr(unsafe.Pointer(c)), nil)
	c.gen.Add(1) // wakes every controlled waiter (spurious wake-ups are allowed by sync.Cond's contract)
	c.real.Signal()
}

func (c *Cond) Broadcast() {
	c.init()
	vsched.Point(vsched.KCondSignal, uintptr(unsafe.Pointer(c)), nil)
	c.gen.Add(1)
	c.real.Broadcast()
}

// OnceFunc etc. pass through.
func OnceFunc(f func()) func() { return sync.OnceFunc(f) }
func OnceValue[T any](f func() T) func() T { return sync.OnceValue(f) }
