// Package vsched is a cooperative, deterministic scheduler for exploring thread
// interleavings of real Go code. Instrumented code (imports rewritten by
// /verif/tools/vinstr to the vsync / vatomic shims, channel operations routed through
// this package) calls Point before every synchronization operation. Exactly one
// controlled thread runs at a time; the explorer decides who runs next at each point.
// Goroutines that are not controlled threads pass straight through to the real
// primitives.
package vsched

import (
	"fmt"
	"os"
	"reflect"
	"runtime"
	"sync"
	"sync/atomic"
	"time"
)

type Kind uint8

const (
	KStart Kind = iota
	KAtomicLoad
	KAtomicStore
	KLock
	KUnlock
	KRLock
	KRUnlock
	KWgAdd
	KWgWait
	KSend
	KRecv
	KClose
	KSelect
	KYield
	KPoint // named coarse point
	KCondWait
	KCondSignal
	KEnd
)

var kindNames = [...]string{"start", "aload", "astore", "lock", "unlock", "rlock", "runlock", "wgadd", "wgwait", "send", "recv", "close", "select", "yield", "point", "condwait", "condsignal", "end"}

func (k Kind) String() string { return kindNames[k] }

// Step is one scheduling decision.
type Step struct {
	Enabled        int  // number of enabled threads offered (canonical order)
	Chosen         int  // index chosen
	CurrentEnabled bool // the previously running thread was still enabled (choosing index>0 is a preemption)
	Tid            int
	Kind           Kind
	Sub            bool // sub-choice (which ready select case), cost 0
	Label          string
}

type thread struct {
	id       int
	wake     chan struct{}
	kind     Kind
	addr     uintptr
	label    string
	enabled  func() bool
	done     bool
	started  bool
	yielded  bool
	steps    int
	selReady []int
	selPick  int
}

// Chooser picks among n canonical alternatives at decision number `i`.
type Chooser func(i int, n int) int

type Result struct {
	Deadlock  bool
	Livelock  bool
	Panic     any
	PanicTid  int
	Steps     int
	Truncated bool // MaxSteps hit
	Blocked   []string
}

type Sched struct {
	threads  []*thread
	byGid    sync.Map // gid -> *thread
	parked   chan *thread
	current  *thread
	aborting atomic.Bool
	closed   sync.Map // chan pointer -> true
	Trace    []Step
	chooser  Chooser
	// AfterStep, when set, runs on the scheduler goroutine after every step (no thread running).
	AfterStep func() bool // return false to stop the execution (violation recorded by caller)
	MaxSteps  int
	YieldHorizon int
	spins    int
	panicVal any
	panicTid int
	timer    *time.Timer
	// Exclusive promises that no uncontrolled goroutine calls into the shims while this
	// scheduler is active (pure in-memory harnesses); thread identity then needs no goroutine id.
	Exclusive bool
	running   *thread
	// quiet: decisions are not offered to the chooser (default choice 0). The harness
	// brackets the part of an execution whose interleavings matter with SetExplore.
	quiet     bool
	alive     int // controlled threads that have not finished
	fastSteps int
	switches  int // number of times the running thread changed
}

// SwitchCount returns how many times the scheduler has switched to a different thread so
// far in the active execution. A harness can use it to tell whether a call ran without
// any other thread taking a step in between.
func SwitchCount() int {
	if s := active.Load(); s != nil {
		return s.switches
	}
	return 0
}

// SetExplore switches exploration of scheduling decisions on or off for the active
// scheduler (callable from a controlled thread). While off, the default choice is taken
// at every point and no alternative is recorded, so set-up/tear-down code costs no search.
func SetExplore(on bool) {
	if s := active.Load(); s != nil {
		s.quiet = !on
	}
}

// StartQuiet makes the scheduler start with exploration switched off.
func (s *Sched) StartQuiet() { s.quiet = true }


var active atomic.Pointer[Sched]

type abortSignal struct{}

func goid() uint64 { return uint64(getg()) }

func cur() (*Sched, *thread) {
	s := active.Load()
	if s == nil {
		return nil, nil
	}
	if s.Exclusive {
		// Only controlled threads (one at a time) and the scheduler goroutine itself touch
		// the shims: the running thread is the caller unless the scheduler has control.
		return s, s.running
	}
	if t, ok := s.byGid.Load(goid()); ok {
		return s, t.(*thread)
	}
	return s, nil
}

// Controlled reports whether the caller is a controlled thread of an active scheduler.
func Controlled() bool { _, t := cur(); return t != nil }

// Point parks the calling controlled thread before an operation of the given kind on addr.
// enabled==nil means always enabled. No-op for uncontrolled goroutines.
func Point(kind Kind, addr uintptr, enabled func() bool) bool {
	s, t := cur()
	if t == nil {
		return false
	}
	s.park(t, kind, addr, "", enabled)
	return true
}

// Named is a coarse, named scheduling point.
func Named(label string) {
	s, t := cur()
	if t == nil {
		return
	}
	s.park(t, KPoint, 0, label, nil)
}

func (s *Sched) park(t *thread, kind Kind, addr uintptr, label string, enabled func() bool) {
	if s.aborting.Load() {
		panic(abortSignal{})
	}
	if s.quiet && s.alive == 1 && (enabled == nil || enabled()) {
		// set-up code with a single controlled thread: nothing to schedule
		s.fastSteps++
		return
	}
	t.kind, t.addr, t.label, t.enabled = kind, addr, label, enabled
	s.parked <- t
	<-t.wake
	if s.aborting.Load() {
		panic(abortSignal{})
	}
}

// Yield is a fair yield: the thread is not rescheduled until another thread has taken a
// step (unless no other thread can run). Replaces time.Sleep / runtime.Gosched in polling loops.
func Yield() {
	s, t := cur()
	if t == nil {
		runtime.Gosched()
		return
	}
	t.yielded = true
	s.park(t, KYield, 0, "", nil)
}

// Go starts f as a new controlled thread (when called under an active scheduler from a
// controlled thread or from the harness before Run); otherwise a plain goroutine.
func Go(f func()) {
	s, t := cur()
	if s == nil || (t == nil && s.current != nil) {
		go f()
		return
	}
	s.spawn(f)
}

func (s *Sched) spawn(f func()) *thread {
	t := &thread{id: len(s.threads), wake: make(chan struct{}), kind: KStart}
	s.threads = append(s.threads, t)
	s.alive++
	go func() {
		<-t.wake
		s.byGid.Store(goid(), t)
		defer func() {
			r := recover()
			if r != nil {
				if _, ok := r.(abortSignal); !ok && s.panicVal == nil {
					s.panicVal = fmt.Sprintf("%v\n%s", r, stack())
					s.panicTid = t.id
				}
			}
			t.done = true
			s.alive--
			s.byGid.Delete(goid())
			s.parked <- t
		}()
		if s.aborting.Load() {
			return
		}
		f()
	}()
	return t
}

func stack() string {
	buf := make([]byte, 4096)
	n := runtime.Stack(buf, false)
	return string(buf[:n])
}

// New creates a scheduler with the given thread bodies (thread ids follow the slice order).
func New(bodies []func(), chooser Chooser) *Sched {
	s := &Sched{parked: make(chan *thread), chooser: chooser, MaxSteps: 100000, YieldHorizon: 200}
	for _, b := range bodies {
		s.spawn(b)
	}
	return s
}

func (s *Sched) isEnabled(t *thread) bool {
	if t.done {
		return false
	}
	if t.enabled == nil {
		return true
	}
	return t.enabled()
}

// Run executes until all threads finish, deadlock, livelock, panic, AfterStep stop, or MaxSteps.
func (s *Sched) Run() Result {
	if !active.CompareAndSwap(nil, s) {
		panic("vsched: another scheduler is active in this process")
	}
	defer active.Store(nil)
	var res Result
	decision := 0
	for {
		if s.panicVal != nil {
			res.Panic, res.PanicTid = s.panicVal, s.panicTid
			break
		}
		// canonical enabled list: current first (if enabled), then ascending ids; fair-yielders last
		var normal, yielders []*thread
		alive := 0
		for _, t := range s.threads {
			if t.done {
				continue
			}
			alive++
			if !s.isEnabled(t) {
				continue
			}
			if t.yielded {
				yielders = append(yielders, t)
			} else {
				normal = append(normal, t)
			}
		}
		if alive == 0 {
			break
		}
		var cands []*thread
		curEnabled := false
		if len(normal) > 0 {
			s.spins = 0
			if s.current != nil && !s.current.done && !s.current.yielded && s.isEnabled(s.current) {
				curEnabled = true
				cands = append(cands, s.current)
			}
			for _, t := range normal {
				if t != s.current || !curEnabled {
					cands = append(cands, t)
				}
			}
			// a yielder becomes a normal candidate again once somebody else stepped (handled below)
		} else if len(yielders) > 0 {
			s.spins++
			if s.spins > s.YieldHorizon {
				res.Livelock = true
				break
			}
			cands = yielders
		} else {
			res.Deadlock = true
			for _, t := range s.threads {
				if !t.done {
					res.Blocked = append(res.Blocked, fmt.Sprintf("T%d@%s", t.id, t.kind))
				}
			}
			break
		}
		pick := 0
		if s.quiet && len(cands) > 1 {
			cands = cands[:1]
		}
		if len(cands) > 1 {
			pick = s.chooser(decision, len(cands))
			if pick < 0 || pick >= len(cands) {
				panic(fmt.Sprintf("vsched: chooser returned %d of %d at decision %d", pick, len(cands), decision))
			}
		}
		t := cands[pick]
		s.Trace = append(s.Trace, Step{Enabled: len(cands), Chosen: pick, CurrentEnabled: curEnabled, Tid: t.id, Kind: t.kind, Label: t.label})
		if len(cands) > 1 {
			decision++
		}
		// select sub-choice
		if t.kind == KSelect && len(t.selReady) > 1 && s.quiet {
			t.selPick = t.selReady[0]
		} else if t.kind == KSelect && len(t.selReady) > 1 {
			sp := s.chooser(decision, len(t.selReady))
			s.Trace = append(s.Trace, Step{Enabled: len(t.selReady), Chosen: sp, Tid: t.id, Kind: KSelect, Sub: true})
			decision++
			t.selPick = t.selReady[sp]
		} else if t.kind == KSelect && len(t.selReady) == 1 {
			t.selPick = t.selReady[0]
		}
		if s.current != t {
			s.switches++
			// everyone who yielded before may run again after another thread steps
			for _, o := range s.threads {
				if o != t {
					o.yielded = false
				}
			}
		}
		if t.kind != KYield {
			t.yielded = false
		}
		s.current = t
		t.steps++
		res.Steps++
		s.running = t
		t.wake <- struct{}{}
		s.waitParked(t)
		s.running = nil
		if s.AfterStep != nil && !s.AfterStep() {
			break
		}
		if res.Steps >= s.MaxSteps {
			res.Truncated = true
			break
		}
	}
	s.abort()
	return res
}

// waitParked waits for the running thread to park again or finish. A thread that blocks
// outside the scheduler (an un-instrumented blocking operation) is a harness error.
func (s *Sched) waitParked(t *thread) {
	select {
	case <-s.parked:
		return
	default:
	}
	if s.timer == nil {
		s.timer = time.NewTimer(60 * time.Second)
	} else {
		s.timer.Reset(60 * time.Second)
	}
	select {
	case <-s.parked:
		if !s.timer.Stop() {
			select {
			case <-s.timer.C:
			default:
			}
		}
	case <-s.timer.C:
		fmt.Fprintf(os.Stderr, "HARNESS-ERROR: controlled thread T%d blocked outside the scheduler after %s (uninstrumented blocking operation)\n%s\n", t.id, t.kind, allStacks())
		os.Exit(2)
	}
}

func allStacks() string {
	buf := make([]byte, 1<<16)
	n := runtime.Stack(buf, true)
	return string(buf[:n])
}

// abort unwinds every unfinished thread.
func (s *Sched) abort() {
	s.aborting.Store(true)
	for _, t := range s.threads {
		if !t.done {
			s.running = t
			t.wake <- struct{}{}
			<-s.parked
			s.running = nil
		}
	}
	s.current = nil
}

// ---- channel support (real channels; readiness from len/cap and a closed-set) ----

func chanPtr(ch any) uintptr { return reflect.ValueOf(ch).Pointer() }

func (s *Sched) isClosed(p uintptr) bool { _, ok := s.closed.Load(p); return ok }

var globalClosed sync.Map // closes performed while no scheduler is active are irrelevant

// Send performs ch <- v.
func Send[T any](ch chan<- T, v T) {
	s, t := cur()
	if t == nil {
		ch <- v
		return
	}
	p := chanPtr(ch)
	if cap(ch) == 0 && ch != nil {
		panic("vsched: unbuffered channel send under the controlled scheduler is not supported")
	}
	s.park(t, KSend, p, "", func() bool { return ch != nil && (len(ch) < cap(ch) || s.isClosed(p)) })
	ch <- v
}

// Recv performs <-ch.
func Recv[T any](ch <-chan T) T {
	v, _ := Recv2(ch)
	return v
}

// Recv2 performs v, ok := <-ch.
func Recv2[T any](ch <-chan T) (T, bool) {
	s, t := cur()
	if t == nil {
		v, ok := <-ch
		return v, ok
	}
	p := chanPtr(ch)
	s.park(t, KRecv, p, "", func() bool { return ch != nil && (len(ch) > 0 || s.isClosed(p)) })
	v, ok := <-ch
	return v, ok
}

// Close performs close(ch).
func Close[T any](ch chan T) {
	s, t := cur()
	if t != nil {
		s.park(t, KClose, chanPtr(ch), "", nil)
	}
	close(ch)
	if s != nil {
		s.closed.Store(chanPtr(ch), true)
	}
}

// SelCase describes one communication clause of a select statement.
type SelCase struct {
	Send bool
	Ch   any
}

// Select parks until a clause is ready (or there is a default) and returns the index of the
// clause to execute (-1 = default). The caller then executes the original clause, which
// cannot block because nothing else runs.
func Select(hasDefault bool, cases ...SelCase) int {
	s, t := cur()
	if t == nil {
		return -2 // uncontrolled: caller falls back to the original select
	}
	ready := func() []int {
		var out []int
		for i, c := range cases {
			v := reflect.ValueOf(c.Ch)
			if !v.IsValid() || v.IsNil() {
				continue
			}
			p := v.Pointer()
			if c.Send {
				if v.Len() < v.Cap() || s.isClosed(p) {
					out = append(out, i)
				}
			} else if v.Len() > 0 || s.isClosed(p) {
				out = append(out, i)
			}
		}
		return out
	}
	t.selReady = nil
	s.park(t, KSelect, 0, "", func() bool {
		t.selReady = ready()
		return len(t.selReady) > 0 || hasDefault
	})
	if len(t.selReady) == 0 {
		return -1
	}
	return t.selPick
}
