package vsched

// getg returns the address of the current goroutine descriptor; it is used purely as an
// identity token for "which controlled thread is calling" (never dereferenced).
func getg() uintptr
