#include "textflag.h"

// func getg() uintptr
// Returns the address of the current goroutine's g (used only as an identity token).
TEXT ·getg(SB),NOSPLIT,$0-8
	MOVQ (TLS), R14
	MOVQ R14, ret+0(FP)
	RET
