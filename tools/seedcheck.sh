#!/bin/bash
# seedcheck.sh [ids...] : regression of the whole suite against the seeded changes. For every
# /verif/seeded/<id>/patch.diff: fresh worktree of /repo HEAD, apply, run the catching check's
# quick tier with --repo; expects exit 1 (VIOLATION). Prints one line per seed.
cd /verif
declare -A CHK=( [C17]=C18 [C05b]=C32 )
ids="$@"; [ -z "$ids" ] && ids=$(ls seeded | grep '^C')
for id in $ids; do
  chk=${CHK[$id]:-${id%b}}
  w=/tmp/seedchk-$id
  git -C /repo worktree remove --force $w >/dev/null 2>&1
  git -C /repo worktree add --detach $w HEAD >/dev/null 2>&1 || { echo "$id: WORKTREE-FAILED"; continue; }
  if ! git -C $w apply /verif/seeded/$id/patch.diff 2>/dev/null; then echo "$id: PATCH-DOES-NOT-APPLY"; git -C /repo worktree remove --force $w; continue; fi
  out=$(VERIF_WORKERS=${VERIF_WORKERS:-8} timeout 1500 ./vcheck $chk --repo $w 2>&1); rc=$?
  sig=$(echo "$out" | grep -a -m1 "signature:" | cut -c1-140)
  sum=$(echo "$out" | grep -a -m1 "^SUMMARY" | grep -o "exhaustive=[a-z]* violations=[0-9]* wall=[0-9.]*s")
  echo "$id: check=$chk rc=$rc $sum $sig"
  git -C /repo worktree remove --force $w >/dev/null 2>&1
  rm -f /verif/replays/$chk-*.json 2>/dev/null
done
