#!/usr/bin/env python3
# saveseed.py <ID> <detection text> : copy a confirmed seeded change from /dev/shm/seeds/<ID> into /verif/seeded/<ID>
import sys, os, shutil, json, glob
i, det = sys.argv[1], sys.argv[2]
src, dst = f"/dev/shm/seeds/{i}", f"/verif/seeded/{i}"
os.makedirs(dst, exist_ok=True)
for f in ["patch.diff", "demo.md"] + [os.path.basename(p) for p in glob.glob(src + "/*_seeddemo_test.go")]:
    if os.path.exists(f"{src}/{f}"): shutil.copy(f"{src}/{f}", f"{dst}/{f}")
am = {}
if os.path.exists(f"{src}/meta.json"):
    shutil.copy(f"{src}/meta.json", f"{dst}/agent_meta.json")
    try: am = json.load(open(f"{src}/meta.json"))
    except Exception: am = {}
def pick(*ks):
    for k in ks:
        if k in am: return am[k]
    return ""
old = {}
if os.path.exists(f"{dst}/meta.json"):
    old = json.load(open(f"{dst}/meta.json"))
meta = {
 "property": i,
 "breaks": pick("breaks", "what_breaks", "summary", "change", "description"),
 "needs_to_manifest": pick("needs_to_manifest", "needs", "trigger", "manifest_condition"),
 "confirmed_by_lead": [
  "fresh worktree of /repo HEAD + patch.diff: go build ./... ok",
  "existing tests of the touched packages pass with the change (tools/seedverify.sh; agent additionally ran the wider set listed in agent_meta.json)",
  "demonstration *_seeddemo_test.go FAILS with the change and PASSES without it",
  f"./vcheck {i} --repo <worktree-with-patch>"],
 "detection": det,
}
for k, v in old.items():
    if k not in meta: meta[k] = v
json.dump(meta, open(f"{dst}/meta.json", "w"), indent=1)
print("saved", dst)
