#!/bin/bash
# land.sh <diff> <message-file>: apply a pending fix to /repo as one "fix:" commit (build-checked with and without the verif tag)
set -e
export GOFLAGS=-mod=mod GOPROXY=off GOSUMDB=off GOTOOLCHAIN=local
cd /repo
test -z "$(git status --porcelain)" || { echo "repo dirty"; exit 1; }
git apply --3way "$1" 2>/dev/null || git apply "$1"
fm=$(gofmt -l $(git diff --name-only HEAD | grep '\.go$') || true)
test -z "$fm" || { echo "gofmt: $fm"; git checkout -- .; git reset -q; exit 1; }
go1.26 build ./... && go1.26 build -tags verif ./... || { echo "build/vet failed"; git checkout -- .; git reset -q; exit 1; }
git add -A . && git commit -q -F "$2" && git log --format=%h -1
