#!/usr/bin/env python3
"""Generate MANIFEST.json from checks.json (single source of truth for registered checks)."""
import json, os, subprocess
ROOT = os.path.dirname(os.path.dirname(os.path.abspath(__file__)))
reg = json.load(open(os.path.join(ROOT, "checks.json")))
props = [json.loads(l)["id"] for l in open(os.path.join(ROOT, "properties.jsonl")) if l.strip()]
na = json.load(open(os.path.join(ROOT, "not_applicable.json"))) if os.path.exists(os.path.join(ROOT, "not_applicable.json")) else {}
hooks = subprocess.run(["git", "-C", "/repo", "log", "--format=%H %s", "--grep=^verif hooks"], capture_output=True, text=True).stdout.strip().splitlines()
checks = []
for pid in props:
    if pid not in reg:
        continue
    s = reg[pid]
    checks.append({
        "property_id": pid,
        "quick_cmd": "./vcheck %s --tier quick" % pid,
        "thorough_cmd": "./vcheck %s --tier thorough" % pid,
        "evidence_file": "/verif/evidence/%s.json" % pid,
        "replay_cmd_template": "./vcheck %s --replay {path}" % pid,
        "engine": s.get("engine", ""),
        "level_claimed": {"category": s["level"], "text": s["text"], "design_ref": s.get("design_ref", "DESIGN.md §4 " + pid)},
        "level_note": s["note"],
        "technique": s["technique"],
    })
engines = {}
for pid, s in reg.items():
    if pid in props:
        engines.setdefault(s.get("engine", "other"), []).append(pid)
man = {
    "version": 1,
    "setup_cmd": "./setup.sh",
    "hooks": {
        "guard": "verif",
        "enable": "go1.26 build -tags verif -overlay <generated> (done by ./vcheck; accessor files are injected from /verif/overlay/files, named hook points live in /repo behind the tag)",
        "baseline_off_cmd": "cd /repo && GOFLAGS=-mod=mod GOPROXY=off go test -json -vet=off -count=1 -timeout 25m ./...",
        "source_commits": [h.split()[0] for h in hooks],
        "add_only": True,
    },
    "engines": [{"name": k, "path": "/verif/lib", "serves_properties": sorted(v), "kind_free_text": ENG.get(k, "")} for k, v in sorted(engines.items())] if (ENG := {
        "seqmc": "bounded-exhaustive DFS over operation sequences on the real object with replay-based successors and canonical-state pruning",
        "crashmc": "every crash point (vfs call / named hook / torn write) of a history: snapshot, reopen with the real recovery, compare with the model",
        "schedmc": "controlled cooperative scheduler over sync/atomic shims; preemption-bounded DFS of thread interleavings of the real code",
        "clustermc": "explicit-state search of a 3-store raft cluster on the real handlers with a harness-owned network",
        "enum": "bounded-exhaustive input grammars / single-fault enumeration against a reference predicate",
    }) is not None else [],
    "checks": checks,
    "not_applicable": [{"property_id": p, "reason": na.get(p, "check not built yet in this session (see DESIGN.md §4 for the planned exploration)")} for p in props if p not in reg],
    "notes": "All checks are bounded exhaustive explorations of the real implementation (see DESIGN.md). exit 0 = held (KNOWN-FINDING lines possible), exit 1 = VIOLATION, exit 2 = harness/build error.",
}
json.dump(man, open(os.path.join(ROOT, "MANIFEST.json"), "w"), indent=1)
print("MANIFEST.json: %d checks, %d not_applicable" % (len(checks), len(man["not_applicable"])))
