#!/usr/bin/env python3
# tiertable.py: markdown table of the last measured quick / thorough runs (quick from /verif/evidence,
# thorough from the copies the thorough streams left in /dev/shm, with manual entries for runs made by hand)
import json, os
manual = {  # thorough runs made outside the streams: (count, complete?, wall s)
 "C27": (3332076, True, 205), "C35": (110000000, True, 1200), "C32": (147141202, False, 2401), "C33": (5334703, True, 686),
}
def f(d):
    if not d: return "-"
    c = d["coverage"]; n = c.get("evaluations") or c.get("states") or 0
    return f"{n:,} / {'complete' if c.get('exhaustive') else 'budget'} / {d.get('wall_s',0):.0f} s"
print("| id | level | quick: evaluations / space / wall | thorough: evaluations / space / wall |\n|---|---|---|---|")
for i in range(1, 39):
    cid = "C%02d" % i
    q = json.load(open(f"/verif/evidence/{cid}.json"))
    tp = f"/dev/shm/thorough-evidence-{cid}.json"
    t = json.load(open(tp)) if os.path.exists(tp) else None
    if t and t.get("tier") != "thorough": t = None
    ts = f(t)
    if cid in manual and not t:
        n, ex, w = manual[cid]; ts = f"{n:,} / {'complete' if ex else 'budget'} / {w} s"
    print(f"| {cid} | {q['level']} | {f(q) if q.get('tier')=='quick' else '-'} | {ts} |")
