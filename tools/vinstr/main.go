// vinstr rewrites copies of repository source files so that their synchronization
// operations go through the vsync / vatomic / vsched shims, and prints the -overlay
// "Replace" map (JSON) on stdout. The repository itself is never modified; the copies
// are regenerated from the CURRENT sources on every vcheck run.
//
// config: {"pkgs": ["utils", "."],              every non-test file of these package dirs that
//                                               imports sync or sync/atomic gets the import rewrite
//          "files": {"db_write.go": {"chans": true, "sleep": true, "go": ["commitWorker"]}}}
//   chans: channel send/recv/close/select become vsched operations
//   sleep: time.Sleep / runtime.Gosched become vsched.Yield()
//   go:    `go x.name(...)` / `go name(...)` for the listed callee names become vsched.Go(func(){...})
//   subst: [[old,new],...] literal text substitutions applied first (each must match)
package main

import (
	"bytes"
	"encoding/json"
	"flag"
	"fmt"
	"go/ast"
	"go/parser"
	"go/token"
	"os"
	"path/filepath"
	"sort"
	"strings"
)

type fileCfg struct {
	Chans bool     `json:"chans"`
	Sleep bool     `json:"sleep"`
	Go    []string `json:"go"`
	Only  bool     `json:"only"` // file listed without its package being in pkgs: still rewrite imports
	// Subst: literal text substitutions [old, new] applied to the source before parsing (e.g. to
	// route a random source or a log.Fatalf through a harness-owned hook defined in an accessor
	// file). Every pair must match at least once, otherwise vinstr fails (harness error).
	Subst [][2]string `json:"subst"`
}

type config struct {
	Pkgs  []string           `json:"pkgs"`
	Files map[string]fileCfg `json:"files"`
}

type edit struct {
	start, end int
	text       string
}

const (
	markOrig = "/*vsched:orig*/"
	markRaw  = "/*vsched:raw*/"
)

func main() {
	repo := flag.String("repo", "/repo", "repository root")
	out := flag.String("out", "", "output dir")
	cfgPath := flag.String("config", "", "config json")
	flag.Parse()
	var cfg config
	data, err := os.ReadFile(*cfgPath)
	must(err)
	must(json.Unmarshal(data, &cfg))
	must(os.RemoveAll(*out))
	must(os.MkdirAll(*out, 0o755))
	targets := map[string]fileCfg{}
	for _, dir := range cfg.Pkgs {
		ents, err := os.ReadDir(filepath.Join(*repo, dir))
		must(err)
		for _, e := range ents {
			n := e.Name()
			if e.IsDir() || !strings.HasSuffix(n, ".go") || strings.HasSuffix(n, "_test.go") {
				continue
			}
			rel := filepath.Join(dir, n)
			targets[filepath.Clean(rel)] = fileCfg{}
		}
	}
	for rel, fc := range cfg.Files {
		targets[filepath.Clean(rel)] = fc
	}
	replace := map[string]string{}
	rels := make([]string, 0, len(targets))
	for rel := range targets {
		rels = append(rels, rel)
	}
	sort.Strings(rels)
	for _, rel := range rels {
		src, err := os.ReadFile(filepath.Join(*repo, rel))
		must(err)
		substituted := false
		for _, sb := range targets[rel].Subst {
			if !bytes.Contains(src, []byte(sb[0])) {
				must(fmt.Errorf("%s: substitution text %q not found (source changed; adjust the instr entry)", rel, sb[0]))
			}
			src = bytes.ReplaceAll(src, []byte(sb[0]), []byte(sb[1]))
			substituted = true
		}
		res, changed := rewrite(rel, src, targets[rel])
		if !changed && substituted {
			res, changed = src, true
		}
		if !changed {
			continue
		}
		dst := filepath.Join(*out, strings.ReplaceAll(rel, string(filepath.Separator), "__"))
		must(os.WriteFile(dst, res, 0o644))
		replace[filepath.Join(*repo, rel)] = dst
	}
	enc, _ := json.Marshal(replace)
	fmt.Println(string(enc))
}

func must(err error) {
	if err != nil {
		fmt.Fprintln(os.Stderr, "vinstr:", err)
		os.Exit(1)
	}
}

func rewrite(rel string, src []byte, fc fileCfg) ([]byte, bool) {
	changed := false
	needSched := false
	for pass := 0; pass < 50; pass++ {
		fset := token.NewFileSet()
		f, err := parser.ParseFile(fset, rel, src, parser.ParseComments)
		if err != nil {
			fmt.Fprintf(os.Stderr, "vinstr: %s: %v\n", rel, err)
			os.Exit(1)
		}
		off := func(p token.Pos) int { return fset.Position(p).Offset }
		text := func(n ast.Node) string { return string(src[off(n.Pos()):off(n.End())]) }
		var edits []edit
		// imports
		if pass == 0 {
			for _, im := range f.Imports {
				path := strings.Trim(im.Path.Value, `"`)
				var np, alias string
				switch path {
				case "sync":
					np, alias = "verif/shim/vsync", "sync"
				case "sync/atomic":
					np, alias = "verif/shim/vatomic", "atomic"
				default:
					continue
				}
				if im.Name != nil {
					alias = im.Name.Name
				}
				edits = append(edits, edit{off(im.Pos()), off(im.End()), fmt.Sprintf("%s %q", alias, np)})
			}
		}
		marked := func(pos token.Pos, mark string) bool {
			o := off(pos)
			return o >= len(mark) && string(src[o-len(mark):o]) == mark
		}
		goNames := map[string]bool{}
		for _, n := range fc.Go {
			goNames[n] = true
		}
		var candidates []edit
		// communication clauses of selects stay raw until the select itself is rewritten
		commSkip := map[token.Pos]bool{}
		ast.Inspect(f, func(n ast.Node) bool {
			if x, ok := n.(*ast.SelectStmt); ok {
				for _, c := range x.Body.List {
					if cc := c.(*ast.CommClause); cc.Comm != nil {
						commSkip[cc.Comm.Pos()] = true
						switch cm := cc.Comm.(type) {
						case *ast.ExprStmt:
							commSkip[cm.X.Pos()] = true
							commSkip[unparen(cm.X).Pos()] = true
						case *ast.AssignStmt:
							commSkip[cm.Rhs[0].Pos()] = true
							commSkip[unparen(cm.Rhs[0]).Pos()] = true
						}
					}
				}
			}
			return true
		})
		ast.Inspect(f, func(n ast.Node) bool {
			if n != nil && commSkip[n.Pos()] {
				switch n.(type) {
				case *ast.SendStmt, *ast.AssignStmt, *ast.UnaryExpr, *ast.ExprStmt, *ast.ParenExpr:
					return false
				}
			}
			switch x := n.(type) {
			case *ast.SelectStmt:
				if !fc.Chans || marked(x.Pos(), markOrig) {
					return true
				}
				candidates = append(candidates, edit{off(x.Pos()), off(x.End()), genSelect(x, text)})
				needSched = true
			case *ast.SendStmt:
				if !fc.Chans || marked(x.Pos(), markRaw) {
					return true
				}
				candidates = append(candidates, edit{off(x.Pos()), off(x.End()), fmt.Sprintf("vsched.Send(%s, %s)", text(x.Chan), text(x.Value))})
				needSched = true
			case *ast.AssignStmt:
				if !fc.Chans || marked(x.Pos(), markRaw) || len(x.Rhs) != 1 {
					return true
				}
				if u, ok := unparen(x.Rhs[0]).(*ast.UnaryExpr); ok && u.Op == token.ARROW && len(x.Lhs) == 2 {
					candidates = append(candidates, edit{off(x.Rhs[0].Pos()), off(x.Rhs[0].End()), fmt.Sprintf("vsched.Recv2(%s)", text(u.X))})
					needSched = true
					return false
				}
			case *ast.UnaryExpr:
				if !fc.Chans || x.Op != token.ARROW || marked(x.Pos(), markRaw) {
					return true
				}
				candidates = append(candidates, edit{off(x.Pos()), off(x.End()), fmt.Sprintf("vsched.Recv(%s)", text(x.X))})
				needSched = true
			case *ast.CallExpr:
				if id, ok := x.Fun.(*ast.Ident); ok && id.Name == "close" && fc.Chans && len(x.Args) == 1 {
					candidates = append(candidates, edit{off(x.Pos()), off(x.End()), fmt.Sprintf("vsched.Close(%s)", text(x.Args[0]))})
					needSched = true
				}
				if sel, ok := x.Fun.(*ast.SelectorExpr); ok && fc.Sleep {
					if pk, ok := sel.X.(*ast.Ident); ok && ((pk.Name == "time" && sel.Sel.Name == "Sleep") || (pk.Name == "runtime" && sel.Sel.Name == "Gosched")) {
						candidates = append(candidates, edit{off(x.Pos()), off(x.End()), "vsched.Yield()"})
						needSched = true
					}
				}
			case *ast.GoStmt:
				name := ""
				switch fn := x.Call.Fun.(type) {
				case *ast.Ident:
					name = fn.Name
				case *ast.SelectorExpr:
					name = fn.Sel.Name
				}
				if goNames[name] {
					candidates = append(candidates, edit{off(x.Pos()), off(x.End()), fmt.Sprintf("vsched.Go(func() { %s })", text(x.Call))})
					needSched = true
				}
			case *ast.RangeStmt:
				// range over a channel is not supported in chans mode
			}
			return true
		})
		// keep only outermost... we want INNERMOST first so that outer constructs are regenerated
		// from already-rewritten text in a later pass: drop candidates that contain another candidate.
		for i, c := range candidates {
			contains := false
			for j, d := range candidates {
				if i != j && d.start >= c.start && d.end <= c.end && !(d.start == c.start && d.end == c.end) {
					contains = true
					break
				}
			}
			if !contains {
				edits = append(edits, c)
			}
		}
		if len(edits) == 0 {
			break
		}
		changed = true
		sort.Slice(edits, func(i, j int) bool { return edits[i].start > edits[j].start })
		for _, e := range edits {
			src = append(append(append([]byte{}, src[:e.start]...), e.text...), src[e.end:]...)
		}
	}
	if needSched {
		src = addImport(rel, src, `vsched "verif/shim/vsched"`)
	}
	// unused imports (time/runtime after Sleep rewriting) are tolerated by appending blank uses
	if fc.Sleep {
		src = append(src, []byte("\nvar _ = vschedKeepImports\n")...)
		src = append(src, []byte(keepImports(src))...)
	}
	return src, changed
}

func keepImports(src []byte) string {
	var sb strings.Builder
	sb.WriteString("\nfunc vschedKeepImports() {\n")
	if bytes.Contains(src, []byte("\"time\"")) {
		sb.WriteString("\t_ = time.Now\n")
	}
	if bytes.Contains(src, []byte("\"runtime\"")) {
		sb.WriteString("\t_ = runtime.NumCPU\n")
	}
	sb.WriteString("}\n")
	return sb.String()
}

func addImport(rel string, src []byte, spec string) []byte {
	fset := token.NewFileSet()
	f, err := parser.ParseFile(fset, rel, src, parser.ImportsOnly)
	must(err)
	pos := fset.Position(f.Name.End()).Offset
	return append(append(append([]byte{}, src[:pos]...), []byte("\n\nimport "+spec+"\n")...), src[pos:]...)
}

func unparen(e ast.Expr) ast.Expr {
	for {
		p, ok := e.(*ast.ParenExpr)
		if !ok {
			return e
		}
		e = p.X
	}
}

func genSelect(s *ast.SelectStmt, text func(ast.Node) string) string {
	var cases []string
	var sb strings.Builder
	hasDefault := false
	idx := 0
	var body strings.Builder
	for _, c := range s.Body.List {
		cc := c.(*ast.CommClause)
		var stmts strings.Builder
		for _, st := range cc.Body {
			stmts.WriteString("\n")
			stmts.WriteString(text(st))
		}
		if cc.Comm == nil {
			hasDefault = true
			fmt.Fprintf(&body, "case -1:%s\n", stmts.String())
			continue
		}
		var ch string
		send := false
		switch cm := cc.Comm.(type) {
		case *ast.SendStmt:
			ch, send = text(cm.Chan), true
		case *ast.ExprStmt:
			ch = text(unparen(cm.X).(*ast.UnaryExpr).X)
		case *ast.AssignStmt:
			ch = text(unparen(cm.Rhs[0]).(*ast.UnaryExpr).X)
		}
		cases = append(cases, fmt.Sprintf("vsched.SelCase{Send: %v, Ch: %s}", send, ch))
		comm := text(cc.Comm)
		// mark the raw communication so later passes leave it alone
		switch cm := cc.Comm.(type) {
		case *ast.AssignStmt:
			lhs := comm[:strings.Index(comm, "<-")]
			comm = lhs + markRaw + comm[len(lhs):]
			_ = cm
		default:
			comm = markRaw + comm
		}
		fmt.Fprintf(&body, "case %d:\n%s%s\n", idx, comm, stmts.String())
		idx++
	}
	fmt.Fprintf(&sb, "switch vsched.Select(%v, %s) {\ncase -2:\n%s%s\n%sdefault:\npanic(\"vsched: bad select index\")\n}", hasDefault, strings.Join(cases, ", "), markOrig, text(s), body.String())
	return sb.String()
}
