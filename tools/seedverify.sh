#!/bin/bash
# seedverify.sh <ID> <pkg-for-demo> "<existing test pkgs>" : independent confirmation of a seeded change
# 1. fresh worktree of /repo HEAD, apply patch, build; 2. existing tests of the given packages pass;
# 3. demo fails with the change; 4. demo passes without it. Leaves the worktree with the patch applied at /tmp/vwt-<ID>.
ID=$1; DEMOPKG=$2; TESTPKGS=$3
S=/dev/shm/seeds/$ID; W=/tmp/vwt-$ID
export GOFLAGS=-mod=mod GOPROXY=off
git -C /repo worktree remove --force $W >/dev/null 2>&1
git -C /repo worktree add --detach $W HEAD >/dev/null 2>&1 || exit 9
cd $W
git apply $S/patch.diff || { echo "APPLY-FAILED"; exit 1; }
go build ./... || { echo "BUILD-FAILED"; exit 1; }
echo "== existing tests with change"; go test -vet=off -count=1 -timeout 40m $TESTPKGS 2>&1 | grep -v "^raft\|^20[0-9][0-9]/" | grep "^ok\|^FAIL\|^--- FAIL\|panic:" | head -20
cp $S/*_seeddemo_test.go $W/$DEMOPKG/ 2>/dev/null
echo "== demo WITH change (expect FAIL)"; go test -vet=off -count=1 -timeout 20m -run 'SeedDemo' ./$DEMOPKG/ 2>&1 | grep "^ok\|^FAIL\|^--- FAIL\|^--- PASS" | head
git apply -R $S/patch.diff
echo "== demo WITHOUT change (expect ok)"; go test -vet=off -count=1 -timeout 20m -run 'SeedDemo' ./$DEMOPKG/ 2>&1 | grep "^ok\|^FAIL\|^--- FAIL\|^--- PASS" | head
git apply $S/patch.diff
rm -f $W/$DEMOPKG/*_seeddemo_test.go
echo "== done $ID"
